------------------------------- MODULE Driver -------------------------------
(* The bxdecay0-run program as a process (property C13): what it may leave on *)
(* disk, and when, for a command line whose treatment is given by a plan      *)
(* (module CmdLine computes plans from command lines):                        *)
(*   plan.verdict  "run" | "refuse" | "usage" | "unspecified"                 *)
(*   plan.n        number of records requested                                *)
(*   plan.req      companion keys that report the settings in effect          *)
(*   plan.opt      informational companion keys it may add                    *)
(*                                                                             *)
(* Parse -> Usage | Refuse (-> Cleanup) |                                     *)
(*   (OpenFile x2 -> InitGen -> Header* [-> Refuse] -> WriteEvent x N ->      *)
(*    CloseEvents -> WriteStatus -> CloseInfo -> Exit)                        *)
(* Both output streams are buffered: a produced unit becomes durable only by  *)
(* a Flush, which may happen anywhere (also in the middle of a record, also   *)
(* in the middle of a unit: Tear).  Crash is enabled in every live state and  *)
(* loses whatever is not durable.                                             *)
(*                                                                             *)
(* The base name may have been used before: old is the set of files of an     *)
(* earlier complete run (event file complete, companion with its marker) that *)
(* are still in place.  Opening a file truncates it.  The companion is opened *)
(* first: otherwise a kill between the two opens (or a refusal, if the second *)
(* open were delayed) leaves the old marker next to an emptied event file.    *)
(*                                                                             *)
(* The event file is a stream of units <<id, part>>: record id consists of    *)
(* Parts units (the real program: 1 = the "id time nuclide" line, 2 = the     *)
(* rest of the record up to and including the blank line).                    *)
EXTENDS Integers, Sequences, FiniteSets, TLC

CONSTANTS Plans, Parts

VARIABLES
  plan,     \* the plan of this execution (chosen by the environment: the command line)
  phase,    \* control state
  n,        \* records produced so far
  tw, tdur, tornT, openT,   \* event file: units produced, how many are durable, partial next unit durable?, stream open?
  cw, cdur, tornC, openC,   \* companion file: lines (keys) produced, durable count, partial next line durable?, open?
  outcome,  \* how the process ended: [rc, msg] ; rc = -1 while alive or when killed
  old       \* files of an earlier complete run on the same base name not yet truncated by this one

vars == <<plan, phase, n, tw, tdur, tornT, openT, cw, cdur, tornC, openC, outcome, old>>

Status == "@status"
Phases == {"start", "parsed", "opened", "header", "events", "closedT", "status", "closed",
           "done", "refused", "usage", "crashed"}
Alive  == Phases \ {"done", "refused", "usage", "crashed"}

Units(i)    == [p \in 1..Parts |-> <<i, p>>]
RECURSIVE AllUnits(_)
AllUnits(k) == IF k <= 0 THEN <<>> ELSE AllUnits(k - 1) \o Units(k - 1)
IsPrefix(s, t) == Len(s) <= Len(t) /\ SubSeq(t, 1, Len(s)) = s
Range(s)    == {s[i] : i \in DOMAIN s}

D0t == SubSeq(tw, 1, tdur)       \* durable content of the event file (whole units)
D0c == SubSeq(cw, 1, cdur)       \* durable content of the companion file (whole lines)

Fresh ==
  /\ phase = "start" /\ n = 0
  /\ tw = <<>> /\ tdur = 0 /\ tornT = FALSE /\ openT = FALSE
  /\ cw = <<>> /\ cdur = 0 /\ tornC = FALSE /\ openC = FALSE
  /\ outcome = [rc |-> -1, msg |-> FALSE]

OldStates == {{}, {"t", "c"}}
Init == plan \in Plans /\ Fresh /\ old \in OldStates

files == <<tw, tdur, tornT, openT, cw, cdur, tornC, openC, old>>

Parse ==
  /\ phase = "start" /\ plan.verdict # "usage"
  /\ phase' = "parsed"
  /\ UNCHANGED <<plan, n, files, outcome>>

\* help requested: nothing is generated
Usage ==
  /\ phase = "start" /\ plan.verdict = "usage"
  /\ phase' = "usage" /\ outcome' = [rc |-> 0, msg |-> TRUE]
  /\ UNCHANGED <<plan, n, files>>

\* A refusal: while parsing, while checking the configuration, or when the generator refuses to initialise
\* (the files may already exist then; header lines may even have been produced - the statement only forbids
\* events and the completion marker).  It has to be detectable: status or message.
Refuse(rc, msg) ==
  /\ phase \in {"start", "parsed", "opened", "header"} /\ tw = <<>>
  /\ plan.verdict \in {"refuse", "unspecified"} \/ (plan.verdict = "usage" /\ phase = "start")
  /\ rc # 0 \/ msg
  /\ phase' = "refused" /\ outcome' = [rc |-> rc, msg |-> msg]
  /\ UNCHANGED <<plan, n, files>>

\* the streams opened before a refusal are closed on the way out (nothing was produced: nothing to flush)
Cleanup(f) ==
  /\ phase = "refused"
  /\ \/ f = "t" /\ openT /\ openT' = FALSE /\ UNCHANGED openC
     \/ f = "c" /\ openC /\ openC' = FALSE /\ UNCHANGED openT
  /\ UNCHANGED <<plan, phase, n, tw, tdur, tornT, cw, cdur, tornC, outcome, old>>

\* opening truncates; the event file is emptied only once the old completion marker is gone
OpenFile(f) ==
  /\ phase = "parsed" /\ plan.verdict # "usage"
  /\ \/ f = "t" /\ ~openT /\ "c" \notin old /\ openT' = TRUE /\ UNCHANGED openC
     \/ f = "c" /\ ~openC /\ openC' = TRUE /\ UNCHANGED openT
  /\ old' = old \ {f}
  /\ phase' = IF openT' /\ openC' THEN "opened" ELSE "parsed"
  /\ UNCHANGED <<plan, n, tw, tdur, tornT, cw, cdur, tornC, outcome>>

InitGen ==
  /\ phase = "opened"
  /\ phase' = "header"
  /\ UNCHANGED <<plan, n, files, outcome>>

Header(k) ==
  /\ phase = "header" /\ k \in (plan.req \cup plan.opt) \ Range(cw)
  /\ cw' = Append(cw, k)
  /\ UNCHANGED <<plan, phase, n, tw, tdur, tornT, openT, cdur, tornC, openC, outcome, old>>

\* the first record is produced only once every setting has been reported
WriteEvent ==
  /\ plan.verdict \in {"run", "unspecified"}
  /\ phase \in {"header", "events"} /\ plan.req \subseteq Range(cw) /\ n < plan.n
  /\ tw' = tw \o Units(n) /\ n' = n + 1 /\ phase' = "events"
  /\ UNCHANGED <<plan, tdur, tornT, openT, cw, cdur, tornC, openC, outcome, old>>

FlushT(k) ==
  /\ openT /\ k \in 1..(Len(tw) - tdur)
  /\ tdur' = tdur + k /\ tornT' = FALSE
  /\ UNCHANGED <<plan, phase, n, tw, openT, cw, cdur, tornC, openC, outcome, old>>

TearT ==
  /\ openT /\ tdur < Len(tw)
  /\ tornT' = TRUE
  /\ UNCHANGED <<plan, phase, n, tw, tdur, openT, cw, cdur, tornC, openC, outcome, old>>

FlushC(k) ==
  /\ openC /\ k \in 1..(Len(cw) - cdur)
  /\ cdur' = cdur + k /\ tornC' = FALSE
  /\ UNCHANGED <<plan, phase, n, tw, tdur, tornT, openT, cw, openC, outcome, old>>

TearC ==
  /\ openC /\ cdur < Len(cw)
  /\ tornC' = TRUE
  /\ UNCHANGED <<plan, phase, n, tw, tdur, tornT, openT, cw, cdur, openC, outcome, old>>

\* the event stream is closed when all N records are produced and everything produced is durable
CloseEvents ==
  /\ phase = "events" /\ n = plan.n /\ tdur = Len(tw)
  /\ openT' = FALSE /\ phase' = "closedT"
  /\ UNCHANGED <<plan, n, tw, tdur, tornT, cw, cdur, tornC, openC, outcome, old>>

\* the completion marker is produced after the event file is closed
WriteStatus ==
  /\ phase = "closedT"
  /\ cw' = Append(cw, Status) /\ phase' = "status"
  /\ UNCHANGED <<plan, n, tw, tdur, tornT, openT, cdur, tornC, openC, outcome, old>>

CloseInfo ==
  /\ phase = "status" /\ cdur = Len(cw)
  /\ openC' = FALSE /\ phase' = "closed"
  /\ UNCHANGED <<plan, n, tw, tdur, tornT, openT, cw, cdur, tornC, outcome, old>>

Exit ==
  /\ phase = "closed"
  /\ phase' = "done" /\ outcome' = [rc |-> 0, msg |-> FALSE]
  /\ UNCHANGED <<plan, n, files>>

\* SIGKILL, power loss: what is not durable is gone
Crash ==
  /\ phase \in Alive
  /\ phase' = "crashed" /\ openT' = FALSE /\ openC' = FALSE
  /\ UNCHANGED <<plan, n, tw, tdur, tornT, cw, cdur, tornC, outcome, old>>

Next ==
  \/ Parse \/ Usage
  \/ \E rc \in {0, 1}, msg \in BOOLEAN : Refuse(rc, msg)
  \/ \E f \in {"t", "c"} : OpenFile(f)
  \/ \E f \in {"t", "c"} : Cleanup(f)
  \/ InitGen
  \/ \E k \in UNION {p.req \cup p.opt : p \in Plans} : Header(k)
  \/ WriteEvent
  \/ \E k \in 1..Len(tw) : FlushT(k)
  \/ TearT
  \/ \E k \in 1..Len(cw) : FlushC(k)
  \/ TearC
  \/ CloseEvents \/ WriteStatus \/ CloseInfo \/ Exit \/ Crash

Spec == Init /\ [][Next]_vars

-----------------------------------------------------------------------------
(* The statement of C13 on this machine.                                      *)

PlanOK == plan \in Plans
TypeOK ==
  /\ phase \in Phases /\ n \in Nat /\ (n = 0 \/ n <= plan.n)
  /\ tdur \in 0..Len(tw) /\ cdur \in 0..Len(cw)
  /\ tornT \in BOOLEAN /\ tornC \in BOOLEAN /\ openT \in BOOLEAN /\ openC \in BOOLEAN
  /\ outcome.rc \in {-1, 0, 1} /\ outcome.msg \in BOOLEAN
  /\ old \subseteq {"t", "c"}

\* the completion marker is visible in the companion file (a torn marker line counts as visible)
NewStatusVisible == Status \in Range(D0c) \/ (tornC /\ cw[cdur + 1] = Status)
StatusVisible == "c" \in old \/ NewStatusVisible

\* "carries its completion marker only if the event file is complete":
\* exactly N records, ids 0..N-1 in order, nothing partial, stream closed - or, for the marker of an earlier run,
\* that run's (complete) event file still untouched
EventFileComplete == "t" \notin old /\ D0t = AllUnits(plan.n) /\ ~tornT /\ ~openT
StatusOnlyIfComplete ==
  /\ "c" \in old => "t" \in old
  /\ NewStatusVisible => EventFileComplete

\* at every instant (so: at every kill point) the event file is a prefix of the complete one:
\* consecutive ids from 0, never more than N records
AlwaysPrefix == IsPrefix(tw, AllUnits(plan.n))

\* "refused before any event is written": a refused or usage run has produced no byte of any record
RefusedNoRecord == phase \in {"refused", "usage"} => (tw = <<>> /\ ~tornT /\ tdur = 0 /\ ~NewStatusVisible)

\* a refusal is detectable
RefusalDetectable == phase = "refused" => (outcome.rc # 0 \/ outcome.msg)

\* a command line that must be refused never gets as far as producing anything
MustRefuse == plan.verdict \in {"refuse", "usage"} => (tw = <<>> /\ Status \notin Range(cw))

\* "the companion file reports the effective settings": once records are being produced every required key has
\* been produced, each key once, and nothing but required / informational keys and the marker
HeaderReflects ==
  /\ \A i, j \in DOMAIN cw : cw[i] = cw[j] => i = j
  /\ Range(cw) \subseteq plan.req \cup plan.opt \cup {Status}
  /\ phase \in {"events", "closedT", "status", "closed", "done"} => plan.req \subseteq Range(cw)

\* normal termination: everything there and durable, marker included
DoneComplete ==
  phase = "done" => /\ EventFileComplete /\ cdur = Len(cw) /\ ~tornC /\ ~openC
                    /\ Status \in Range(cw) /\ outcome.rc = 0

\* durable content only grows (append-only files)
Monotone == [][tdur' >= tdur /\ cdur' >= cdur /\ IsPrefix(tw, tw') /\ IsPrefix(cw, cw')]_vars
=============================================================================
