------------------------------ MODULE TraceEvent ------------------------------
(* Trace validation of generated events against Event.tla (C03, C04): the log  *)
(* is the public-API projection written by harness/cosim.cc --ev-trace.        *)
EXTENDS Event, Json, IOUtils
VARIABLE l
tvars == <<vars, l>>
Log == ndJsonDeserialize(IOEnv.TRACE)
IsEvent(e) == l <= Len(Log) /\ Log[l].e = e /\ l' = l + 1
TInit == Init /\ l = 1
TBegin == IsEvent("Begin") /\ Begin(Log[l].cat, [lab |-> Log[l].lab, t0 |-> Log[l].t0, mode |-> Log[l].mode, q |-> Log[l].q,
                                                   ebb1 |-> Log[l].ebb1, ebb2 |-> Log[l].ebb2, steps |-> Log[l].steps, win |-> Log[l].win, chain |-> Log[l].chain])
TPart == IsEvent("P") /\ Particle(Log[l].c, Log[l].ke, Log[l].fin, Log[l].dt, Log[l].tneg)
TEnd == IsEvent("End") /\ End(Log[l].n)
TNext == TBegin \/ TPart \/ TEnd
TraceSpec == TInit /\ [][TNext]_tvars
Progress == TLCSet(1, IF TLCGet(1) > l THEN TLCGet(1) ELSE l)
\* states that break an invariant are not extended: the log is then rejected at that line (no long error trace);
\* the offending event is re-run alone with the invariants named (MCTraceEventNamed.cfg)
Good == WellFormed /\ NeverAboveQ /\ Closure /\ InWindow
ProgressGood == Progress /\ Good
ProgressWellFormed == Progress /\ WellFormed
Accepted == /\ PrintT(<<"furthest-line", TLCGet(1), "of", Len(Log)>>)
            /\ TLCGet(1) > Len(Log)
=============================================================================
