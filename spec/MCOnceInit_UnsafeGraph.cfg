SPECIFICATION Spec
CONSTANTS
  Threads <- T3
  Calls = 1
  Mode = "Unsafe"
  Refill = FALSE
INVARIANTS TypeOK 
CHECK_DEADLOCK FALSE
