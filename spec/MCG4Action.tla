---------------------------- MODULE MCG4Action ----------------------------
(* Model constants for G4Action: "all call sequences over the configuration classes".        *)
(* Twelve representative interface configurations, one per reason for which the core tools       *)
(* accept or refuse a request (all with millisecond initialisation), four vertex sources.     *)
EXTENDS G4Action

Bkg(n, s, m) == [cat |-> "bkg", nuc |-> n, seed |-> s, mode |-> 0, level |-> 0, win |-> "none", mdl |-> m]
Dbd(n, s, mo, l, w) == [cat |-> "dbd", nuc |-> n, seed |-> s, mode |-> mo, level |-> l, win |-> w, mdl |-> "off"]

B1 == Bkg("pub", "s1", "off")          \* accepted
B2 == Bkg("pub", "s2", "on")           \* accepted, other seed, momentum-direction lock installed
B3 == Bkg("pub", "s2", "rect")         \* the same with the rectangular cut: B3 then B2 on one action must forget the second half-angle
BZ == Bkg("pubz", "s1", "off")         \* accepted; its first decay contains a particle of zero momentum (one primary per particle, still)
BB == Bkg("pubb", "s1", "off")         \* accepted: a background request for a name that the double-beta catalogue publishes as well
BU == Bkg("unpub", "s1", "off")        \* the dispatcher knows the name, the catalogue does not: refused by the core tools
BX == Bkg("unk", "s1", "off")          \* unknown name
BN == Bkg("pub", "neg", "off")         \* negative seed
D1 == Dbd("pub", "s1", 1, 0, "none")   \* accepted
DX == Dbd("unk", "s1", 1, 0, "none")   \* unknown name
DM == Dbd("pub", "s1", 0, 0, "none")   \* undefined mode
DL == Dbd("pub", "s1", 1, 9, "none")   \* level the daughter does not have
CX == [cat |-> "bad", nuc |-> "pub", seed |-> "s1", mode |-> 0, level |-> 0, win |-> "none", mdl |-> "off"]

MCConfigs   == {B1, B2, B3, BZ, BB, BU, BX, BN, D1, DX, DM, DL, CX}
MCVertexers == {"p1", "p2", "seq", "none"}

ASSUME MCConfigs \subseteq ConfigSpace
=============================================================================
