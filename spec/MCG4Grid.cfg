SPECIFICATION GridSpec
CONSTANTS
  Configs <- GridConfigs
  Vertexers = {}
  MaxShots = 2
INVARIANTS TypeOK ServedOnlyIfCoreAccepts LiveOnlyIfCoreAccepts RefusedHandsNothing
PROPERTIES ChangeIsEvaluated NoFalseRefusal ShotsAccounting InOrder
CHECK_DEADLOCK FALSE
