SPECIFICATION TraceSpec
INVARIANTS OwnSchemeFirst NotAConcatenation ExactChain
CONSTRAINT Progress
POSTCONDITION Accepted
CHECK_DEADLOCK FALSE
