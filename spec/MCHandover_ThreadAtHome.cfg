SPECIFICATION Spec
CONSTANTS
  Gens <- G2
  Threads <- T2
  Scope = "thread"
  Migration = FALSE
  Shots = 2
INVARIANTS TypeOK Independent
CHECK_DEADLOCK FALSE
