SPECIFICATION Spec
CONSTANTS
  Threads <- T3
  Segments = 1
  Decays = 2
  Private = FALSE
  Schedule = "Free"
INVARIANTS TypeOK Independent Complete
CHECK_DEADLOCK FALSE
