-------------------------------- MODULE Window --------------------------------
(* The full-range / window event ratio reported after initialisation (C03):    *)
(* it is >= 1, equals 1 for the full range and never decreases when the energy  *)
(* window narrows.  Ratio in units of 1e-6 (clipped at 2000), energies 0.01 eV. *)
EXTENDS Integers, TLC
CONSTANTS Bounds, Ratios        \* values explored when the model is run on its own
VARIABLES lo, hi, ratio, phase
vars == <<lo, hi, ratio, phase>>
One == 1000000
Init == lo = 0 /\ hi = 0 /\ ratio = One /\ phase = "idle"
Full(r) == phase' = "full" /\ ratio' = r /\ lo' = 0 /\ hi' = 2000000000 /\ phase \in {"idle", "full", "window"}
\* a window inside the previous one
Narrow(a, b, r) == /\ phase \in {"full", "window"} /\ a >= lo /\ b <= hi /\ a < b
                   /\ lo' = a /\ hi' = b /\ ratio' = r /\ phase' = "window"
Reset == phase' = "idle" /\ lo' = 0 /\ hi' = 0 /\ ratio' = One
Next == Reset \/ (\E r \in Ratios : Full(r)) \/ (\E a \in Bounds, b \in Bounds, r \in Ratios : Narrow(a, b, r))
Spec == Init /\ [][Next]_vars
AtLeastOne == phase # "idle" => ratio >= One - 1
FullIsOne == phase = "full" => (ratio >= One - 1 /\ ratio <= One + 1)
\* 2 units = 2e-6 of slack for quadrature noise between two initialisations
Monotone == [][(phase' = "window" /\ phase \in {"full", "window"}) => ratio' >= ratio - 2]_vars
=============================================================================
