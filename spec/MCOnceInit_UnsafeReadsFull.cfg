SPECIFICATION Spec
CONSTANTS
  Threads <- T3
  Calls = 2
  Mode = "Unsafe"
  Refill = FALSE
INVARIANTS TypeOK ReadsFull
CHECK_DEADLOCK FALSE
