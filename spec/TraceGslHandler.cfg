SPECIFICATION TSpec
CONSTANTS
  Threads <- TraceThreads
  Quads = 8
  MaxTries = 2
  UseLock = TRUE
INVARIANTS TNoAbort TOneSaver TSilenced
POSTCONDITION AllConsumed
CHECK_DEADLOCK FALSE
