SPECIFICATION Spec
CONSTANTS
  Threads <- T2
  Calls = 2
  Mode = "Unsafe"
  Refill = FALSE
INVARIANTS TypeOK 
CHECK_DEADLOCK FALSE
