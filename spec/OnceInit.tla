------------------------------ MODULE OnceInit ------------------------------
(* A lazily filled function-local static shared by all threads (property C12): *)
(*   - the trace-flag map of bxdecay0::traces():                                 *)
(*         static map _t;  if (_t.empty()) { _t[k1] = ..; _t[k2] = ..; ... }     *)
(*         return _t;            // callers then look a key up                  *)
(*     the declaration is thread-safe (C++11), the lazy FILL is ordinary code.  *)
(*   - Refill = TRUE: a static that every call re-assigns before reading it     *)
(*     (the static std::string of dbd_gA::env_data_base_dir() when the          *)
(*     environment variable is set).                                            *)
(*                                                                             *)
(* Steps of one call by thread t:  Check -> [FillBegin -> FillEnd] -> Read.      *)
(* The first insertion already makes the container non-empty, so between        *)
(* FillBegin and FillEnd another thread's Check sees "filled" and goes on to    *)
(* Read a half-built container that is being mutated.                           *)
(*                                                                             *)
(* Mode = "Unsafe" : no synchronisation (plain code).                           *)
(* Mode = "Once"   : check-and-claim is atomic, later callers wait for the end  *)
(*                   of the fill (std::call_once, or an initialiser of the      *)
(*                   static itself); afterwards reads are free.                 *)
(* Mode = "Mutex"  : the whole call holds one lock (also fits Refill).          *)
EXTENDS Naturals, FiniteSets

CONSTANTS
  Threads,   \* thread identifiers (positive integers)
  Calls,     \* calls per thread
  Mode,      \* "Unsafe" | "Once" | "Mutex"
  Refill     \* FALSE: fill only when empty (traces());  TRUE: every call re-assigns

VARIABLES
  map,       \* "empty" | "partial" | "full"
  pc,        \* per thread: "start" | "tofill" | "filling" | "toread" | "done"
  left,      \* per thread: calls still to make
  once,      \* Once: 0 = nobody filled yet, t = thread t is filling, Done = filled.  Mutex: 0 = free, t = holder
  view       \* per thread: what its last Read saw ("none" before)

vars == <<map, pc, left, once, view>>

Done == 99   \* a value no thread identifier takes

TypeOK ==
  /\ map \in {"empty", "partial", "full"}
  /\ pc \in [Threads -> {"start", "tofill", "filling", "toread", "done"}]
  /\ left \in [Threads -> 0..Calls]
  /\ once \in {0, Done} \cup Threads
  /\ view \in [Threads -> {"none", "empty", "partial", "full"}]

Init ==
  /\ map = "empty"
  /\ pc = [t \in Threads |-> "start"]
  /\ left = [t \in Threads |-> Calls]
  /\ once = 0
  /\ view = [t \in Threads |-> "none"]

MustFill == Refill \/ map = "empty"

\* `if (_t.empty())`
Check(t) ==
  /\ pc[t] = "start" /\ left[t] > 0
  /\ \/ /\ Mode = "Unsafe"
        /\ pc' = [pc EXCEPT ![t] = IF MustFill THEN "tofill" ELSE "toread"]
        /\ once' = once
     \/ /\ Mode = "Once" /\ once = 0
        /\ once' = t /\ pc' = [pc EXCEPT ![t] = "tofill"]
     \/ /\ Mode = "Once" /\ once = Done
        /\ once' = once /\ pc' = [pc EXCEPT ![t] = "toread"]
     \/ /\ Mode = "Mutex" /\ once = 0
        /\ once' = t
        /\ pc' = [pc EXCEPT ![t] = IF MustFill THEN "tofill" ELSE "toread"]
  /\ UNCHANGED <<map, left, view>>

\* first insertion / start of the assignment
FillBegin(t) ==
  /\ pc[t] = "tofill"
  /\ map' = "partial"
  /\ pc' = [pc EXCEPT ![t] = "filling"]
  /\ UNCHANGED <<left, once, view>>

\* last insertion / end of the assignment.  A concurrent filler may still be in the middle of its own.
FillEnd(t) ==
  /\ pc[t] = "filling"
  /\ map' = IF \E u \in Threads \ {t} : pc[u] = "filling" THEN "partial" ELSE "full"
  /\ pc' = [pc EXCEPT ![t] = "toread"]
  /\ once' = IF Mode = "Once" THEN Done ELSE once
  /\ UNCHANGED <<left, view>>

\* the caller uses the returned reference (lookup)
Read(t) ==
  /\ pc[t] = "toread"
  /\ view' = [view EXCEPT ![t] = map]
  /\ pc' = [pc EXCEPT ![t] = "start"]
  /\ left' = [left EXCEPT ![t] = @ - 1]
  /\ once' = IF Mode = "Mutex" THEN 0 ELSE once
  /\ UNCHANGED map

Next ==
  \/ \E t \in Threads : Check(t)
  \/ \E t \in Threads : FillBegin(t)
  \/ \E t \in Threads : FillEnd(t)
  \/ \E t \in Threads : Read(t)

Spec == Init /\ [][Next]_vars

-----------------------------------------------------------------------------
InFill(t) == pc[t] \in {"tofill", "filling"}

(* no two threads fill (write the same container) at once *)
NoTwoFill == Cardinality({t \in Threads : InFill(t)}) <= 1
(* nobody reads while somebody is mutating *)
NoReadDuringFill == \A t, u \in Threads : (t # u /\ pc[t] = "toread") => pc[u] # "filling"
(* every caller sees the complete container *)
ReadsFull == \A t \in Threads : view[t] \in {"none", "full"}
=============================================================================
