-------------------------------- MODULE MCBB --------------------------------
EXTENDS BB
MCModes == 1..20
\* e0 values: a 7 keV transition (Nd148 -> Sm148 level 5), a sub-keV-fraction one, Mo100 g.s., the largest tabulated Q (Ca48)
MCE0s == {700000, 100050000, 303400000, 426800000}
MCGrid == 50000000
MCE0sQuick == {700000, 303400000}
MCGridQuick == 100000000
=============================================================================
