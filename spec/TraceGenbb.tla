------------------------------ MODULE TraceGenbb ------------------------------
(* Trace validation of genbbsub's dispatch against Genbb.tla.                  *)
(*  {"e":"Reset"}                                                              *)
(*  {"e":"Genbb","cat":"bkg"|"dbd","name":<published base name>}               *)
(*  {"e":"Enter","s":<routine>,"alpha":0|1}   routine entered; alpha = the     *)
(*                                 event starts with an alpha (first routine)  *)
(*  {"e":"Exit"}                                                               *)
EXTENDS Genbb, Json, IOUtils

VARIABLE l
tvars == <<vars, l>>
Log == ndJsonDeserialize(IOEnv.TRACE)
IsEvent(e) == l <= Len(Log) /\ Log[l].e = e /\ l' = l + 1

TInit == Init /\ l = 1
TReset == IsEvent("Reset") /\ cat' = "none" /\ name' = "" /\ idx' = 0 /\ entered' = <<>> /\ alphaFirst' = FALSE /\ phase' = "idle"
TGenbb == IsEvent("Genbb") /\ Dispatch(Log[l].cat, Log[l].name)
TEnter == IsEvent("Enter") /\ RunScheme(Log[l].alpha = 1) /\ entered'[Len(entered')] = Log[l].s
TSkip  == /\ l <= Len(Log) /\ Log[l].e \in {"Enter", "Exit"}
          /\ phase = "run" /\ idx <= Len(Chain(cat, name))
          /\ (Log[l].e = "Enter" => Log[l].s # Chain(cat, name)[idx].s)
          /\ SkipDaughter /\ UNCHANGED l
TExit  == IsEvent("Exit") /\ Finish
TAgain == l <= Len(Log) /\ Log[l].e = "Reset" /\ Again /\ UNCHANGED l
TNext == TReset \/ TGenbb \/ TEnter \/ TSkip \/ TExit \/ TAgain
TraceSpec == TInit /\ [][TNext]_tvars

Progress == TLCSet(1, IF TLCGet(1) > l THEN TLCGet(1) ELSE l)
Accepted == /\ PrintT(<<"furthest-line", TLCGet(1), "of", Len(Log)>>)
            /\ TLCGet(1) > Len(Log)
=============================================================================
