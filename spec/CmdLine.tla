------------------------------ MODULE CmdLine ------------------------------
(* The command line of bxdecay0-run (property C13) as an explicit rule table. *)
(* A command line is a record of value classes, one field per option group;   *)
(* Plan(cl) is what the property lets the program do with it:                 *)
(*   verdict "run"    - accepted: N records, ids 0..N-1, companion reports    *)
(*                      the settings in Req(cl)                               *)
(*           "refuse" - unsupported nuclide / mode / window / option / value: *)
(*                      no event may be written                               *)
(*           "usage"  - help requested: nothing is generated                  *)
(*           "unspecified" - the statement does not fix the verdict (named    *)
(*                      deviations below); whatever the program decides must  *)
(*                      still be consistent (run => complete and equal to the *)
(*                      API, refuse => nothing written)                       *)
(* The admission rules for the double-beta part are the reference rules of    *)
(* property C06, written out for three isotopes (one per family).             *)
(*                                                                             *)
(* Named deviations from an idealised CLI, modelled on purpose:               *)
(*  - IrrelevantIgnored : level / mode / window given with the background     *)
(*    category do not apply and are ignored (the help text says "only for     *)
(*    dbd"); the companion then reports no such setting.                      *)
(*  - MdlDefaultLabel : MDL options without --pgop-mdl-particle. The help     *)
(*    text promises the default "all", the program refuses the empty label.   *)
(*    The property demands neither: verdict "unspecified".                    *)
(*  - WindowBeyondSpectrum : a well-formed window (min < max, window-capable  *)
(*    mode) whose lower bound is above the energy available to the leptons.   *)
(*    C06's rules accept it, C03 cannot hold for it: "unspecified" here.      *)
EXTENDS Integers, Sequences, FiniteSets, TLC

CONSTANTS
  GaData,       \* TRUE iff the gA tables (modes 21..24) are mounted for Mo100
  LevelVals, ModeVals, CountVals   \* value classes of the integer options (Absent = not given)

Absent == -99

Cats   == {"none", "dbd", "background", "junk"}
\* "bkgP" = any name published in background_isotopes.lis (and not in the dbd list),
\* "unk" = a name published nowhere; the three dbd names have their table below.
Nucs   == {"none", "bkgP", "Mo100", "Cd106", "Xe136", "unk"}
\* windows in MeV: lo = -e 0.05 ; hi = -E 0.15 ; both = -e 0.05 -E 0.15 ; inv = -e 0.15 -E 0.05 ; neg = -e -1
Wins   == {"none", "lo", "hi", "both", "inv", "neg"}
\* seeds: 0, 7, 2147483647, -1, "abc"
Seeds  == {"none", "0", "7", "max", "neg", "nan"}
\* activities: 2.5, 0, -1
Acts   == {"none", "pos", "zero", "neg"}
\* MDL option groups: "e-" = particle e-, rank 0, phi 30.5, theta 60.25, aperture 20.5 (real-valued options) ; "all" = particle all only ;
\* "gamma" = particle gamma, rank 1, aperture 35.5 ; badlabel = particle muon ; badrank = rank -2 ;
\* negap = aperture -5 ; bigap = aperture 400 ; nolabel = rank 0 + aperture 20 without a particle option
Mdls   == {"none", "e-", "all", "gamma", "badlabel", "badrank", "negap", "bigap", "nolabel"}
\* unknown = an option the program does not have ; dangling = an option that needs a value is the last argument ;
\* extra = a second positional parameter ; help = -h
Faults == {"none", "unknown", "dangling", "extra", "help"}
\* how the integer option values (-l -m -s -n, MDL rank) are SPELT: "plain" = shortest decimal form, "padded" = decimal
\* with a leading zero (010 for ten: zero-padded numbers from job scripts).  The value, hence the plan, is the same.
Spellings == {"plain", "padded"}

CmdLines == [cat : Cats, nuc : Nucs, level : LevelVals, mode : ModeVals, win : Wins,
             seed : Seeds, count : CountVals, act : Acts, mdl : Mdls, fault : Faults, sp : Spellings]

-----------------------------------------------------------------------------
(* The double-beta table: Q-value, K binding energy (keV), sign of the process, level energies (keV), 2+ levels. *)
DbdNucs == {"Mo100", "Cd106", "Xe136"}
Qkev(nu)  == CASE nu = "Mo100" -> 3034 [] nu = "Cd106" -> 2775 [] nu = "Xe136" -> 2458
EKkev(nu) == CASE nu = "Mo100" -> 0 [] nu = "Cd106" -> 24 [] nu = "Xe136" -> 0
BetaMinus(nu) == nu \in {"Mo100", "Xe136"}
LevelE(nu) ==
  CASE nu = "Mo100" -> (0 :> 0 @@ 1 :> 540 @@ 2 :> 1130 @@ 3 :> 1362 @@ 4 :> 1741)
    [] nu = "Cd106" -> (0 :> 0 @@ 1 :> 512 @@ 2 :> 1128 @@ 3 :> 1134 @@ 4 :> 1562 @@ 5 :> 1706)
    [] nu = "Xe136" -> (0 :> 0 @@ 1 :> 819 @@ 2 :> 1551 @@ 3 :> 1579 @@ 4 :> 2080 @@ 5 :> 2129 @@ 6 :> 2141
                        @@ 7 :> 2223 @@ 8 :> 2315 @@ 9 :> 2400)
TwoPlus(nu) ==
  CASE nu = "Mo100" -> {1, 3} [] nu = "Cd106" -> {1, 2, 4} [] nu = "Xe136" -> {1, 2, 4, 5, 7, 9}

KnownModes  == 1..24
WindowModes == {4, 5, 6, 8, 10, 13, 14, 15, 16, 19}
GaModes     == {21, 22, 23, 24}
ModesFor0   == {1, 2, 3, 4, 5, 6, 9, 10, 11, 12, 13, 14, 15, 17, 18, 19, 20}
ModesFor2   == {3, 7, 8, 9, 10, 11, 12, 16}
EcModes     == {9, 10, 11, 12}          \* e-capture modes: only for the 2b+ family
FourBeta    == {"Xe136"}                \* of the three isotopes modelled (rule: Zr96, Xe136, Nd150)

\* energies in eV; electron mass 510 999.06 eV (no level sits within 1 keV of a threshold)
Me2 == 1021998
Me4 == 2043996
E0ev(nu, m) ==
  IF m = 20 /\ nu = "Xe136" THEN 79000
  ELSE IF m \in {9, 10} THEN Qkev(nu) * 1000 - EKkev(nu) * 1000 - Me2
  ELSE IF m \in {11, 12} THEN Qkev(nu) * 1000 - 2000 * EKkev(nu)
  ELSE IF BetaMinus(nu) THEN Qkev(nu) * 1000 ELSE Qkev(nu) * 1000 - Me4

Lvl(cl) == IF cl.level = Absent THEN 0 ELSE cl.level

-----------------------------------------------------------------------------
(* Rule table, in the order the program meets the rules.  Each rule is a pair <<name, condition>>; the first *)
(* rule that fires names the reason of the refusal.                                                          *)
ParseRules(cl) == <<
  <<"option:unknown",        cl.fault = "unknown">>,
  <<"option:dangling",       cl.fault = "dangling">>,
  <<"option:extra-parameter", cl.fault = "extra">>,
  <<"category:unsupported",  cl.cat = "junk">>,
  <<"level:negative",        cl.level # Absent /\ cl.level < 0>>,
  <<"mode:out-of-range",     cl.mode # Absent /\ cl.mode \notin KnownModes>>,
  <<"window:negative",       cl.win = "neg">>,
  <<"seed:invalid",          cl.seed \in {"neg", "nan"}>>,
  <<"count:invalid",         cl.count # Absent /\ cl.count < 1>>,
  <<"activity:negative",     cl.act = "neg">> >>

ConfigRules(cl) == <<
  <<"category:missing",      cl.cat = "none">>,
  <<"nuclide:missing",       cl.nuc = "none">>,
  <<"nuclide:not-background", cl.cat = "background" /\ cl.nuc # "bkgP">>,
  <<"nuclide:not-dbd",       cl.cat = "dbd" /\ cl.nuc \notin DbdNucs>>,
  <<"mode:missing",          cl.cat = "dbd" /\ cl.mode = Absent>>,
  <<"window:mode-without-window", cl.cat = "dbd" /\ cl.win # "none" /\ cl.mode \notin WindowModes>>,
  <<"activity:zero",         cl.act = "zero">>,
  <<"mdl:particle",          cl.mdl = "badlabel">>,
  <<"mdl:rank",              cl.mdl = "badrank">>,
  <<"mdl:aperture",          cl.mdl \in {"negap", "bigap"}>> >>

\* only evaluated for cat = "dbd", nuc \in DbdNucs, mode \in KnownModes
EngineRules(cl) ==
  LET nu == cl.nuc  m == cl.mode  l == Lvl(cl) IN <<
  <<"window:inverted",       cl.win = "inv">>,
  <<"mode:gA-level",         m \in GaModes /\ l # 0>>,
  <<"mode:gA-no-data",       m \in GaModes /\ ~(GaData /\ nu = "Mo100")>>,
  <<"level:4b-excited",      m = 20 /\ nu \in FourBeta /\ l # 0>>,
  <<"level:not-tabulated",   m \notin GaModes /\ l \notin DOMAIN LevelE(nu)>>,
  <<"level:not-enough-energy", m \notin GaModes /\ l \in DOMAIN LevelE(nu) /\ E0ev(nu, m) <= LevelE(nu)[l] * 1000>>,
  <<"mode:spin",             m \notin GaModes /\ l \in DOMAIN LevelE(nu)
                             /\ ~(IF l \in TwoPlus(nu) THEN m \in ModesFor2 ELSE m \in ModesFor0)>>,
  <<"mode:sign",             BetaMinus(nu) /\ m \in EcModes>>,
  <<"mode:4b-nuclide",       m = 20 /\ nu \notin FourBeta>> >>

Hit(r) == r[2]
\* name of the first rule of the sequence that fires, "none" if none does
First(rules) == LET h == SelectSeq(rules, Hit) IN IF h = <<>> THEN "none" ELSE h[1][1]

Why(cl) ==
  LET p == First(ParseRules(cl)) IN
  IF p # "none" THEN p
  ELSE LET c == First(ConfigRules(cl)) IN
       IF c # "none" THEN c
       ELSE IF cl.cat = "dbd" THEN First(EngineRules(cl)) ELSE "none"

\* WindowBeyondSpectrum: the lower bound (50 keV for "lo" and "both") is not below the available energy
BeyondSpectrum(cl) ==
  /\ cl.cat = "dbd" /\ cl.win \in {"lo", "both"}
  /\ E0ev(cl.nuc, cl.mode) - LevelE(cl.nuc)[Lvl(cl)] * 1000 <= 150000   \* keep the whole window inside

\* the named deviation that leaves the verdict open, "none" otherwise
Deviation(cl) ==
  IF Why(cl) # "none" THEN "none"
  ELSE IF BeyondSpectrum(cl) THEN "deviation:WindowBeyondSpectrum"
  ELSE IF cl.mdl = "nolabel" THEN "deviation:MdlDefaultLabel"
  ELSE "none"

Verdict(cl) ==
  IF cl.fault = "help" THEN "usage"
  ELSE IF Why(cl) # "none" THEN "refuse"
  ELSE IF Deviation(cl) # "none" THEN "unspecified"
  ELSE "run"

NEvents(cl) == IF cl.count = Absent THEN 1 ELSE cl.count

\* what the companion file has to report for an accepted command line: the settings in effect
Req(cl) ==
  {"decay-category", "nuclide", "seed", "nb-events"}
  \cup (IF cl.act = "pos" THEN {"activity-Bq"} ELSE {})
  \cup (IF cl.cat = "dbd" THEN {"dbd-daughter-level", "dbd-mode"} ELSE {})                     \* IrrelevantIgnored
  \cup (IF cl.cat = "dbd" /\ cl.win # "none" THEN {"erange-min-energy-MeV", "erange-max-energy-MeV"} ELSE {})
  \cup (IF cl.mdl # "none" THEN {"mdl.particle_label", "mdl.target_particle_rank", "mdl.cone_phi_degree",
                                 "mdl.cone_theta_degree", "mdl.cone_aperture_degree"} ELSE {})
\* informational keys it may add
Opt(cl) ==
  {"library-name", "library-version", "time-from-epoch-s", "other"}
  \cup (IF cl.cat = "dbd" /\ cl.win # "none" THEN {"erange-toallevents"} ELSE {})
  \cup (IF cl.mdl # "none" THEN {"pgops"} ELSE {})

Plan(cl) == [verdict |-> Verdict(cl), why |-> IF Why(cl) # "none" THEN Why(cl) ELSE Deviation(cl), n |-> NEvents(cl), req |-> Req(cl), opt |-> Opt(cl)]

-----------------------------------------------------------------------------
(* Enumeration: the relational core (category, nuclide, level, mode, window) completely, with the independent  *)
(* option groups at their defaults; plus, around a few base command lines, every combination in which at most  *)
(* MaxDev of the independent groups (seed, count, activity, MDL, fault) leave their default.                   *)
CONSTANTS Bases, MaxDev, Extra   \* Extra: further command lines (the kill-point configurations)

Core == [cat : Cats, nuc : Nucs, level : LevelVals, mode : ModeVals, win : Wins,
         seed : {"none"}, count : {Absent}, act : {"none"}, mdl : {"none"}, fault : {"none"}, sp : {"plain"}]

NDev(cl) == (IF cl.seed # "none" THEN 1 ELSE 0) + (IF cl.count # Absent THEN 1 ELSE 0) + (IF cl.act # "none" THEN 1 ELSE 0)
          + (IF cl.mdl # "none" THEN 1 ELSE 0) + (IF cl.fault # "none" THEN 1 ELSE 0) + (IF cl.sp # "plain" THEN 1 ELSE 0)

Around(b) == {cl \in [cat : {b.cat}, nuc : {b.nuc}, level : {b.level}, mode : {b.mode}, win : {b.win},
                      seed : Seeds, count : CountVals, act : Acts, mdl : Mdls, fault : Faults, sp : Spellings] : NDev(cl) <= MaxDev}

Grid == Core \cup UNION {Around(b) : b \in Bases} \cup Extra \cup {[x EXCEPT !.sp = "padded"] : x \in Extra}

VARIABLES cl, plan
vars == <<cl, plan>>

None == [cat |-> "none", nuc |-> "none", level |-> Absent, mode |-> Absent, win |-> "none",
         seed |-> "none", count |-> Absent, act |-> "none", mdl |-> "none", fault |-> "none", sp |-> "plain"]

Init == cl = None /\ plan = Plan(None)
Pick(c) == cl = None /\ cl' = c /\ plan' = Plan(c)
Next == \E c \in Grid \ {None} : Pick(c)
Spec == Init /\ [][Next]_vars

-----------------------------------------------------------------------------
(* Sanity of the table itself (checked by TLC on every enumerated command line). *)
TypeOK == cl \in CmdLines /\ plan.verdict \in {"run", "refuse", "usage", "unspecified"} /\ plan.n \in Int

\* an accepted command line has every field supported: category and nuclide given and matching, a positive count...
RunIsSupported ==
  plan.verdict = "run" =>
    /\ cl.cat \in {"dbd", "background"} /\ cl.fault = "none" /\ plan.n >= 1
    /\ cl.cat = "background" => cl.nuc = "bkgP"
    /\ cl.cat = "dbd" => /\ cl.nuc \in DbdNucs /\ cl.mode \in KnownModes
                         /\ (cl.mode \notin GaModes => Lvl(cl) \in DOMAIN LevelE(cl.nuc))
                         /\ (cl.win # "none" => cl.mode \in WindowModes /\ cl.win # "inv")
    /\ cl.seed \notin {"neg", "nan"} /\ cl.act \in {"none", "pos"} /\ cl.mdl \in {"none", "e-", "all", "gamma"}
    /\ {"seed", "nb-events", "nuclide", "decay-category"} \subseteq plan.req

\* a refusal always has a named reason, and only a refusal has one
ReasonIffRefused == /\ (plan.verdict = "refuse") <=> (Why(cl) # "none" /\ cl.fault # "help")
                    /\ (plan.verdict = "unspecified") <=> (Deviation(cl) # "none" /\ cl.fault # "help")
                    /\ (plan.verdict = "run") => plan.why = "none"

\* the spelling of a number changes nothing of what has to happen
SpellingIrrelevant == plan = Plan([cl EXCEPT !.sp = "plain"])

\* required and informational keys are disjoint
KeysDisjoint == plan.req \cap plan.opt = {}
=============================================================================
