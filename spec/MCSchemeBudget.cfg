SPECIFICATION Spec
CONSTANTS Names <- MCNames
INVARIANTS CascadeClosure
CHECK_DEADLOCK FALSE
