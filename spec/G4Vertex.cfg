SPECIFICATION Spec
INVARIANTS TypeOK Named
CHECK_DEADLOCK FALSE
