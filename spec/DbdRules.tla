------------------------------ MODULE DbdRules ------------------------------
(* Admission rules of a double-beta request (property C06).                   *)
(*                                                                            *)
(* The isotope table (DbdTable.tla) is extracted from GENBBsub of the Decay0  *)
(* 2020-04-20 reference text; the rules below are a transcription of its      *)
(* checks (1) energy, (2) spin/mode, (3) sign of the process, (4) quadruple   *)
(* beta, plus the BxDecay0-only rules (gA modes, energy-sum window).          *)
(* A request is cfg = [iso, level, mode, win].                                *)
(* Energies here are in units of 0.01 eV (1 keV = 10^5).                      *)
(*                                                                            *)
(* Named deviation FourBetaGroundOnly: for the 4b mode the reference silently *)
(* replaces the requested level by the ground state ("ilevel=0"; its message  *)
(* says "g.s. to g.s."); BxDecay0 refuses a non-zero level instead.           *)
EXTENDS Integers, Sequences, FiniteSets, TLC, DbdTable

CONSTANTS
  Isos,          \* isotope names explored (published ones and unknown ones)
  Levels,        \* daughter level indices explored
  ModeIds,       \* mode identifiers explored
  GaData         \* set of <<isotope, mode>> for which a gA dataset is mounted

VARIABLE cfg

KeV   == 100000
EMass == 51099906

Wins == {"none", "valid", "inverted", "beyond", "lower", "upper", "empty"}
  \* beyond: min < max but the whole window lies above the available energy
  \* empty: min = max (no interval at all)
  \* lower / upper: only that bound is given (the other one is left undefined and keeps the engine's default): still a window
OpenWins == {"valid", "lower", "upper"}

WindowModes == {4, 5, 6, 8, 10, 13, 14, 15, 16, 19}
GaModes     == {21, 22, 23, 24}
GaIsotopes  == {"Se82", "Mo100", "Cd116", "Nd150"}
RefModes    == 1..20
FourBetaIsotopes == {"Zr96", "Xe136", "Nd150"}
ModesFor0 == {1, 2, 3, 4, 5, 6, 9, 10, 11, 12, 13, 14, 15, 17, 18, 19, 20}
ModesFor2 == {3, 7, 8, 9, 10, 11, 12, 16}

Known(i) == i \in DbdNames
LevelOK(i, l) == l >= 0 /\ l < Len(DbdIso[i].levels)
Lev(i, l) == DbdIso[i].levels[l + 1]

\* e0 of check (1): full energy release available to the transition (before subtracting the level)
E0Full(i, l, m) ==
  LET q == (IF m = 20 /\ DbdIso[i].q4 > 0 THEN DbdIso[i].q4 ELSE DbdIso[i].q) * KeV   \* 4b has its own Q value
      ek == Lev(i, l).ek * KeV IN
  IF m \in {9, 10} THEN q - ek - 2 * EMass
  ELSE IF m \in {11, 12} THEN q - 2 * ek
  ELSE IF DbdIso[i].z < 0 THEN q - 4 * EMass
  ELSE q

EnergyOK(i, l, m) == E0Full(i, l, m) > Lev(i, l).e * KeV

\* spin flag -1: the reference assigns no 0+/2+ flag to that level (rule unspecified there)
SpinSpecified(i, l) == Lev(i, l).spin \in {0, 2}
SpinOK(i, l, m) ==
  \/ (Lev(i, l).spin = 0 /\ m \in ModesFor0)
  \/ (Lev(i, l).spin = 2 /\ m \in ModesFor2)

SignOK(i, m) == ~(DbdIso[i].z >= 0 /\ m \in {9, 10, 11, 12})

FourBetaOK(i, m) == m = 20 => i \in FourBetaIsotopes

\* the reference rules (modes 1..20, no window concept at this layer).  For the quadruple-beta mode of the three isotopes
\* that have one, the reference replaces the requested level by the ground state before any test.
RefLevel(i, l, m) == IF m = 20 /\ Known(i) /\ DbdIso[i].q4 > 0 THEN 0 ELSE l
RefAccept(i, l, m) ==
  LET le == RefLevel(i, l, m) IN
  /\ Known(i) /\ LevelOK(i, le) /\ m \in RefModes
  /\ EnergyOK(i, le, m) /\ SpinOK(i, le, m) /\ SignOK(i, m) /\ FourBetaOK(i, m)

FourBetaGroundOnly(l, m) == m = 20 => l = 0          \* named deviation

\* the plumbing layer of BxDecay0 (genbbsub, initialisation call)
PlumbingAccept(i, l, m) == Known(i) /\ LevelOK(i, l) /\ RefAccept(i, l, m) /\ FourBetaGroundOnly(l, m)

\* a window is admissible on a window-capable mode when min < max and it overlaps the spectrum (0, e0): a window entirely
\* above the available energy selects nothing - an accepted request must yield events inside its window (C03)
WindowOK(m, w) == w = "none" \/ (w \in OpenWins /\ m \in WindowModes)

GaAccept(i, l, m, w) ==
  /\ m \in GaModes /\ i \in GaIsotopes /\ l = 0 /\ w = "none" /\ <<i, m>> \in GaData

\* the library layer (decay0_generator::initialize)
LibraryAccept(c) ==
  IF c.mode \in GaModes THEN GaAccept(c.iso, c.level, c.mode, c.win)
  ELSE PlumbingAccept(c.iso, c.level, c.mode) /\ WindowOK(c.mode, c.win)

\* which verdicts are defined for a request
Determined(c) == ~(Known(c.iso) /\ LevelOK(c.iso, c.level) /\ ~SpinSpecified(c.iso, c.level))

Grid == [iso : Isos, level : Levels, mode : ModeIds, win : Wins]

Init == cfg \in Grid
Next == UNCHANGED cfg
Spec == Init /\ [][Next]_cfg

-----------------------------------------------------------------------------
(* Model-level consequences of the rules, checked by TLC over the whole grid *)

FourBetaOnlyThree == LibraryAccept(cfg) /\ cfg.mode = 20 => cfg.iso \in FourBetaIsotopes /\ cfg.level = 0
GaOnlyFourGroundStates == LibraryAccept(cfg) /\ cfg.mode \in GaModes => cfg.iso \in GaIsotopes /\ cfg.level = 0
WindowOnlyOnWindowModes == LibraryAccept(cfg) /\ cfg.win # "none" => cfg.mode \in WindowModes /\ cfg.win \in OpenWins
UnknownRefused == ~Known(cfg.iso) => ~LibraryAccept(cfg)
LibraryWithinReference == LibraryAccept(cfg) /\ cfg.mode \in RefModes => RefAccept(cfg.iso, cfg.level, cfg.mode)
PositiveEnergy == LibraryAccept(cfg) /\ cfg.mode \in RefModes => E0Full(cfg.iso, cfg.level, cfg.mode) - Lev(cfg.iso, cfg.level).e * KeV > 0

\* every published isotope can be initialised at least to its ground state
\* (not every tabulated excited level can: with the current Q values a few near-resonant capture levels - Se74 level 2,
\*  Ru96 level 9, Sn112 level 6, Ce136 levels 8-9, Dy156 level 15, Os184 level 5 - fail the energy rule for every mode,
\*  in the reference as well)
EveryIsotopeHasAMode ==
  \A i \in DbdNames : \E m \in RefModes : PlumbingAccept(i, 0, m)

\* the published catalogues agree with the table of the reference and with each other
CataloguesAgree ==
  /\ ReadmeDbdNames = DbdNames /\ LisDbdNames = DbdNames
  /\ DOMAIN ReadmeLevels = DbdNames
  /\ \A i \in DbdNames :
       /\ Len(ReadmeLevels[i]) = Len(DbdIso[i].levels)
       /\ \A l \in 1..Len(ReadmeLevels[i]) :
            /\ ReadmeLevels[i][l].e = DbdIso[i].levels[l].e
            /\ (i # "Bi214" => ReadmeLevels[i][l].spin = DbdIso[i].levels[l].spin)   \* Bi214 -> At214 g.s. is 1-, flagged 0 by GENBBsub

\* every mode label maps to one mode and back; README and resource file publish the same table
ModeLabelsBijective ==
  /\ \A a, b \in LisModes : (a.id = b.id \/ a.label = b.label) => a = b
  /\ {[id |-> r.id, label |-> r.label] : r \in LisModes} = {[id |-> r.id, label |-> r.label] : r \in ReadmeModes}
  /\ {r.id : r \in LisModes} = 1..24
  /\ \A r \in LisModes : (r.id \in GaModes) = (r.legacy = -1)
  /\ \A a, b \in LisModes : (a.legacy = b.legacy /\ a.legacy # -1) => a = b

\* verdict export for the conformance replay (one line per grid point)
Verdicts(c) ==
  <<c.iso, c.level, c.mode, c.win,
    IF Determined(c) THEN (IF LibraryAccept(c) THEN 1 ELSE 0) ELSE 2,
    IF Determined(c) THEN (IF c.mode \in RefModes /\ PlumbingAccept(c.iso, c.level, c.mode) THEN 1 ELSE 0) ELSE 2,
    IF Determined(c) THEN (IF RefAccept(c.iso, c.level, c.mode) THEN 1 ELSE 0) ELSE 2>>
Export == PrintT(Verdicts(cfg))
=============================================================================
