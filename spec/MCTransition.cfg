SPECIFICATION Spec
CONSTANTS
  Prims <- MCPrims
  Egs <- MCEgs
  EbKs <- MCEbKs
  EbLs <- MCEbLs
  EbMs <- MCEbMs
INVARIANTS EnergyConserved Bounded NoHolesLeft
CHECK_DEADLOCK FALSE
