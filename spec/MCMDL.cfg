SPECIFICATION Spec
CONSTANTS
  Species <- MCSpecies
  Filters <- MCFilters
  Ranks <- MCRanks
  MaxLen = 4
  MaxRej = 1
  Chain = FALSE
INVARIANTS TypeOK WellDefined NothingSelected TargetMode SelectionMode KindMode Ledger EntryIrrelevant
CHECK_DEADLOCK FALSE
