----------------------------- MODULE MCG4Grid -----------------------------
(* G4Action over the whole product of the configuration classes: every configuration is         *)
(* submitted once to a fresh action, then applied explicitly or implicitly and asked for         *)
(* primaries.  TLC checks the invariants of G4Action on it and exports the verdict the           *)
(* specification gives for every configuration (CoreAccept / first refusal criterion) as JSON;   *)
(* checks/c17.py compares that table with the real core tools and replays every configuration    *)
(* on the real action.                                                                           *)
EXTENDS G4Action, Json, IOUtils, SequencesExt

GridConfigs == [cat : Cats, nuc : Nucs, seed : {"s1", "zero", "neg"}, mode : Modes, level : Levels,
                win : Wins, mdl : Mdls]

GridNext ==
  \/ (iface = Default /\ ~changed /\ cur = NoCfg /\ \E c \in Configs : SetConfiguration(c))
  \/ (iface # Default /\ (ApplyConfiguration \/ GeneratePrimaries))

GridSpec == Init /\ [][GridNext]_vars

Verdict(c) == IF MayAccept(c) /\ MayRefuse(c) THEN "either" ELSE IF MayAccept(c) THEN "accept" ELSE "refuse"

Table == SetToSeq({[cfg |-> c, verdict |-> Verdict(c), why |-> Why(c)] : c \in GridConfigs})

ASSUME "C17_TABLE" \in DOMAIN IOEnv => JsonSerialize(IOEnv.C17_TABLE, Table)
=============================================================================
