------------------------------- MODULE Index -------------------------------
(* Table subscripts (property C08).  The ported Fortran keeps its 1-based      *)
(* subscripts and addresses its tables as T[k - 1]; a subscript outside the    *)
(* table may well stay inside the enclosing object (a member array preceded by *)
(* other members, a constant table between other constants), where no memory   *)
(* checker sees it.  The code notes every subscript it is about to use         *)
(* ("index" notes: base 0 or 1, subscript, table size); per (base, size) the   *)
(* harness reports the smallest and the largest subscript of a whole run, one  *)
(* ndjson line each: {"e":"Idx","base":b,"n":n,"lo":i,"hi":j,"count":c}.      *)
EXTENDS Integers, Sequences, TLC, Json, IOUtils

Log == ndJsonDeserialize(IOEnv.TRACE)

VARIABLE l

InTable(base, i, n) == IF base = 1 THEN 1 <= i /\ i <= n ELSE 0 <= i /\ i < n

Init == l = 1
Access ==
  /\ l <= Len(Log) /\ Log[l].e = "Idx"
  /\ Log[l].n >= 1 /\ Log[l].base \in {0, 1}
  /\ InTable(Log[l].base, Log[l].lo, Log[l].n) /\ InTable(Log[l].base, Log[l].hi, Log[l].n)
  /\ l' = l + 1
Spec == Init /\ [][Access]_l

\* every reported range was inside its table
Accepted == TLCGet("stats").diameter - 1 = Len(Log)
=============================================================================
