------------------------------ MODULE TraceWindow ------------------------------
EXTENDS Window, Sequences, Json, IOUtils
VARIABLE l
Log == ndJsonDeserialize(IOEnv.TRACE)
IsEvent(e) == l <= Len(Log) /\ Log[l].e = e /\ l' = l + 1
TInit == Init /\ l = 1
TReset == IsEvent("Reset") /\ Reset
TFull == IsEvent("Full") /\ Full(Log[l].r)
TNarrow == IsEvent("Narrow") /\ Narrow(Log[l].lo, Log[l].hi, Log[l].r)
TNext == TReset \/ TFull \/ TNarrow
TraceSpec == TInit /\ [][TNext]_<<vars, l>>
Progress == TLCSet(1, IF TLCGet(1) > l THEN TLCGet(1) ELSE l)
\* states that break an invariant are not extended: the log is then rejected at that line (no long error trace)
Good == AtLeastOne /\ FullIsOne
ProgressGood == Progress /\ Good
Accepted == /\ PrintT(<<"furthest-line", TLCGet(1), "of", Len(Log)>>)
            /\ TLCGet(1) > Len(Log)
MCBounds == {0}
MCRatios == {1000000}
ASSUME TLCSet(1, 0)
=============================================================================
