SPECIFICATION Spec
CONSTANTS
  M = 6
  N = 5
  Export = TRUE
INVARIANTS TypeOK NeverThrows InvertsE1 InvertsE2 MonotoneE1 MonotoneE2 InDomain ExportPick
CHECK_DEADLOCK FALSE
