SPECIFICATION Spec
INVARIANTS OwnSchemeFirst NotAConcatenation ExactChain PrefixPairsSeparate CataloguesAgree ProbesAgree
CHECK_DEADLOCK FALSE
