------------------------------ MODULE MCCodec ------------------------------
(* Event spaces for Codec.tla.                                               *)
(*  PatternEvents : every label class x 0..2 particles x every rotation and   *)
(*    three strides of the value classes over the fields, so that every class *)
(*    occurs in every field of every record shape, next to equal and to       *)
(*    different classes.                                                      *)
(*  ProductEvents : one-particle records with every combination of classes in *)
(*    the four particle components (thorough tier).                           *)
EXTENDS Codec

K == Len(ClassSeq)
Cls(i) == ClassSeq[(i % K) + 1]
Cod(i) == CodeSeq[(i % Len(CodeSeq)) + 1]

PatternEvent(l, np, rot, stride) ==
  [label |-> LabelSeq[l],
   time  |-> Value(Cls(rot)),
   parts |-> [i \in 1..np |->
               [code |-> Cod(rot + i - 1),
                t  |-> Value(Cls(rot + (4 * (i - 1) + 1) * stride)),
                px |-> Value(Cls(rot + (4 * (i - 1) + 2) * stride)),
                py |-> Value(Cls(rot + (4 * (i - 1) + 3) * stride)),
                pz |-> Value(Cls(rot + (4 * (i - 1) + 4) * stride))]]]

PatternEvents ==
  {PatternEvent(l, np, rot, stride) : l \in 1..Len(LabelSeq), np \in 0..2, rot \in 0..(K - 1), stride \in {0, 1, 3}}

ProductEvents ==
  {[label |-> "short", time |-> Value(Cls(a + b + c + d)),
    parts |-> <<[code |-> Cod(a + d), t |-> Value(Cls(a)), px |-> Value(Cls(b)), py |-> Value(Cls(c)), pz |-> Value(Cls(d))]>>] :
     a \in 1..K, b \in 1..K, c \in 1..K, d \in 1..K}

MCEventsQuick    == PatternEvents
MCEventsThorough == PatternEvents \cup ProductEvents
=============================================================================
