SPECIFICATION Spec
CONSTANTS
  Modes <- MCModes
  E0s <- MCE0s
  Grid <- MCGrid
  Slack = 0
INVARIANTS TypeOK IndexInTable WindowClamped PairEnergies Emission
CHECK_DEADLOCK FALSE
