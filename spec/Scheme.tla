------------------------------- MODULE Scheme -------------------------------
(* A decay scheme of Decay0 as a labelled transition system.                  *)
(*                                                                            *)
(* The graphs (gen/SchData.tla) are extracted from the text of the Decay0     *)
(* 2020-04-20 reference: a node is a program point where control depends on a *)
(* uniform draw, an edge carries the region of that draw and the primitive    *)
(* calls (with their literal arguments) made before the next decision.        *)
(*                                                                            *)
(* One behaviour = one decay: Start(name) picks the scheme, Take(e) follows   *)
(* an edge whose guard is compatible with what is already known about the     *)
(* draw it tests, Return ends.  The ledger np counts emitted particles        *)
(* (lower/upper bound, since a transition primitive emits 1 or 2 particles).  *)
(*                                                                            *)
(* Checked here for every scheme: guards of a node tile the current region of *)
(* one draw (no gap, no overlap: every deviate selects exactly one branch),   *)
(* every behaviour returns (no cycle), emits at least one particle and never  *)
(* more than the event capacity of the reference (100).                       *)
EXTENDS Integers, Sequences, FiniteSets, TLC, SchData

CONSTANTS Names      \* the schemes to explore (subset of SchNames)

VARIABLES sch, node, reg, npmin, npmax, steps, evis, ncalls

vars == <<sch, node, reg, npmin, npmax, steps, evis, ncalls>>

Less(x, y)  == x[1] < y[1] \/ (x[1] = y[1] /\ x[2] < y[2])       \* on <<a,b>> pairs
Leq(x, y)   == x = y \/ Less(x, y)
Zero == <<0, 0>>
One  == <<1000000, 0>>

EdgesOf(s) == SchEdges[s]
Out(s, n)  == {i \in 1..Len(EdgesOf(s)) : EdgesOf(s)[i].s = n}

\* particles emitted by one primitive call: <<min, max>>
\* (nucltrans*: gamma | conversion electron + X-ray | e+e- pair ; PbAtShell: cascades of X-rays/Auger electrons)
NPart(p) ==
  CASE p \in {"beta", "beta1", "beta2", "beta_1fu", "gamma", "electron", "positron", "alpha", "particle"} -> <<1, 1>>
    [] p = "pair" -> <<2, 2>>
    [] p \in {"nucltransK", "nucltransKL", "nucltransKLM"} -> <<1, 2>>
    [] p = "nucltransKLM_Pb" -> <<1, 8>>
    [] p = "PbAtShell" -> <<1, 7>>
    [] OTHER -> <<0, 0>>

\* visible energy (eV) of the calls of an edge whose energy is fixed, and number of calls
RECURSIVE SumEv(_, _)
SumEv(items, i) ==
  IF i > Len(items) THEN 0
  ELSE (IF items[i].k = "call" /\ items[i].ev > 0 THEN items[i].ev ELSE 0) + SumEv(items, i + 1)
RECURSIVE CountCalls(_, _)
CountCalls(items, i) ==
  IF i > Len(items) THEN 0 ELSE (IF items[i].k = "call" THEN 1 ELSE 0) + CountCalls(items, i + 1)

RECURSIVE SumItems(_, _, _)
SumItems(items, i, which) ==
  IF i > Len(items) THEN 0
  ELSE (IF items[i].k = "call" THEN NPart(items[i].p)[which] ELSE 0) + SumItems(items, i + 1, which)

RegOf(site) == IF site \in DOMAIN reg THEN reg[site] ELSE <<Zero, One>>

Init ==
  /\ sch \in Names
  /\ node = 0
  /\ reg = <<>>
  /\ npmin = 0 /\ npmax = 0 /\ steps = 0 /\ evis = 0 /\ ncalls = 0

\* an edge may be taken when its guard lies inside what is known about the draw it tests
Take(i) ==
  LET e == EdgesOf(sch)[i] IN
  /\ node >= 0
  /\ e.s = node
  /\ (e.site # "" => /\ Leq(RegOf(e.site)[1], e.lo) /\ Leq(e.hi, RegOf(e.site)[2]))
  /\ node' = e.d
  /\ reg' = IF e.site = "" THEN reg
            ELSE [x \in (DOMAIN reg) \cup {e.site} |-> IF x = e.site THEN <<e.lo, e.hi>> ELSE reg[x]]
  /\ npmin' = npmin + SumItems(e.items, 1, 1)
  /\ npmax' = npmax + SumItems(e.items, 1, 2)
  /\ steps' = steps + 1
  /\ evis' = evis + SumEv(e.items, 1)
  /\ ncalls' = ncalls + CountCalls(e.items, 1)
  /\ UNCHANGED sch

Next == \E i \in 1..Len(EdgesOf(sch)) : Take(i)

Spec == Init /\ [][Next]_vars

-----------------------------------------------------------------------------
\* Guards of the edges leaving the current node, restricted to those compatible with the current region
Compat(s, n) ==
  {i \in Out(s, n) : LET e == EdgesOf(s)[i] IN
                      e.site = "" \/ (Leq(RegOf(e.site)[1], e.lo) /\ Leq(e.hi, RegOf(e.site)[2]))}

\* every deviate selects exactly one branch: the compatible guards test one draw, are pairwise disjoint and contiguous,
\* and cover exactly the region known for that draw
Tiling ==
  node >= 0 =>
    LET C == Compat(sch, node) IN
    /\ C # {}
    /\ \/ (Cardinality(C) = 1 /\ \A i \in C : EdgesOf(sch)[i].site = "")
       \/ /\ \A i, j \in C : EdgesOf(sch)[i].site = EdgesOf(sch)[j].site /\ EdgesOf(sch)[i].site # ""
          /\ \A i, j \in C : i # j => (Leq(EdgesOf(sch)[i].hi, EdgesOf(sch)[j].lo) \/ Leq(EdgesOf(sch)[j].hi, EdgesOf(sch)[i].lo))
          /\ LET site == EdgesOf(sch)[CHOOSE i \in C : TRUE].site IN
             /\ \E i \in C : EdgesOf(sch)[i].lo = RegOf(site)[1]
             /\ \E i \in C : EdgesOf(sch)[i].hi = RegOf(site)[2]
             /\ \A i \in C : EdgesOf(sch)[i].hi = RegOf(site)[2] \/ \E j \in C : EdgesOf(sch)[j].lo = EdgesOf(sch)[i].hi
          /\ \A i \in C : Less(EdgesOf(sch)[i].lo, EdgesOf(sch)[i].hi)

\* bounded work: no cycle in a scheme (the longest chain in the reference is far below this)
Acyclic == steps <= 60

\* event capacity of the reference (npfull <= 100)
Capacity == npmax <= 100

\* C03 on the model: a de-excitation cascade releases the energy of the level it starts from (tabulated level energy vs sum
\* of the transition energies: 3 keV + 1 keV per transition of rounding)
CascadeClosure ==
  (node = -1 /\ sch \in LowNames) =>
     /\ evis >= LowLevelKeV[sch] * 1000 - 3000 - 1000 * ncalls
     /\ evis <= LowLevelKeV[sch] * 1000 + 3000 + 1000 * ncalls

\* a decay that has returned emitted at least one particle; the daughter-level (*low) routines are exempt: a transition to
\* the ground state has no de-excitation (the primary leptons come from the double-beta sampler)
NonEmpty == (node = -1 /\ sch \notin LowNames) => npmin >= 1

\* every conversion outcome a transition call can take is energetically possible: an outcome with a non-zero coefficient
\* leaves the electron (the pair) a positive kinetic energy - otherwise the primitive computes the momentum of a negative
\* energy (C04: every momentum component is finite)
ConversionsPossible ==
  \A i \in 1..Len(EdgesOf(sch)) :
    LET its == EdgesOf(sch)[i].items IN
    \A j \in DOMAIN its : \A q \in DOMAIN its[j].tr :
      its[j].tr[q][3] = 1 => its[j].tr[q][1] > its[j].tr[q][2]
=============================================================================
