---------------------------- MODULE MCCmdLine ----------------------------
(* Model constants for CmdLine (TLC's cfg syntax has no negative literals). *)
EXTENDS CmdLine
MCLevels == {Absent, -1, 0, 1, 2, 5, 10}
MCModes  == {Absent, 0, 1, 4, 7, 8, 10, 11, 20, 21, 25}
MCCounts == {Absent, -2, 0, 1, 3}
\* thorough tier: every level index and every mode number around the valid ranges
MCLevelsT == {Absent} \cup (-1..10)
MCModesT  == {Absent} \cup (0..25)
B(cat, nuc, level, mode, win) ==
  [cat |-> cat, nuc |-> nuc, level |-> level, mode |-> mode, win |-> win,
   seed |-> "none", count |-> Absent, act |-> "none", mdl |-> "none", fault |-> "none", sp |-> "plain"]
MCBases == { B("background", "bkgP", Absent, Absent, "none"),     \* accepted background
             B("dbd", "Mo100", 0, 4, "both"),                     \* accepted 2nubb with a window
             B("dbd", "Cd106", 1, 10, "none"),                    \* accepted e-capture mode to a 2+ level
             B("dbd", "Xe136", Absent, 20, "none"),               \* accepted quadruple beta
             B("dbd", "Mo100", 0, 10, "none"),                    \* refused by the engine (sign of the process)
             B("background", "unk", Absent, Absent, "none") }     \* refused: unknown nuclide
X(b, seed, count, act, mdl) == [b EXCEPT !.seed = seed, !.count = count, !.act = act, !.mdl = mdl]
\* the configurations of the kill-point enumeration (checks/c13.py: kill_configs)
MCExtra == { X(B("background", "bkgP", Absent, Absent, "none"), "7", 3, "none", "none"),
             X(B("background", "bkgP", Absent, Absent, "none"), "7", 3, "pos", "e-"),
             X(B("dbd", "Mo100", 0, 1, "none"), "7", 3, "pos", "all"),
             X(B("dbd", "Mo100", 0, 4, "hi"), "0", 3, "pos", "gamma") }
=============================================================================
