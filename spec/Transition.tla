----------------------------- MODULE Transition -----------------------------
(* The nuclear-transition primitives (nucltransK / KL / KLM / KLM_Pb), the     *)
(* internal pair and the atomic de-excitation of Pb (PbAtShell) as small state *)
(* machines: one action per emission.  Energies in eV.                         *)
(*                                                                             *)
(* A transition of energy E either emits a gamma(E), or converts on the K, L   *)
(* or M shell: electron(E - Eb) followed by the release of the binding energy  *)
(* Eb (one X-ray; for Pb two X-rays after a K conversion; through PbAtShell    *)
(* where a scheme calls it), or creates a pair: e-/e+ sharing E - 2 m_e.       *)
(* Checked by TLC for every outcome: the visible energy released equals E      *)
(* (named deviation PbKNeglected: in 4.8 % of the K conversions of the Pb      *)
(* variant the low-energy X-rays/Auger electrons are not emitted), the number  *)
(* of particles is bounded, the shell cascade terminates.                      *)
EXTENDS Integers, Sequences, FiniteSets, TLC

CONSTANTS
  Prims,        \* subset of {"nucltransK", "nucltransKL", "nucltransKLM", "nucltransKLM_Pb", "pair", "PbAtShell"}
  Egs,          \* transition energies explored (eV)
  EbKs, EbLs, EbMs   \* binding energies explored (eV)

VARIABLES prim, e, ebk, ebl, ebm, stage, out, lholes, mholes, hole, neglected

vars == <<prim, e, ebk, ebl, ebm, stage, out, lholes, mholes, hole, neglected>>

TwoMe == 1021998    \* 2 x 0.51099906 MeV, rounded to eV

Vis(p) == p.ev + (IF p.c = "e+" THEN TwoMe ELSE 0)
RECURSIVE SumVis(_, _)
SumVis(s, i) == IF i > Len(s) THEN 0 ELSE Vis(s[i]) + SumVis(s, i + 1)

Emit(c, ev) == out' = Append(out, [c |-> c, ev |-> ev])

Init ==
  /\ prim \in Prims /\ e \in Egs /\ ebk \in EbKs /\ ebl \in EbLs /\ ebm \in EbMs
  /\ stage = "start" /\ out = <<>> /\ lholes = 0 /\ mholes = 0 /\ hole = 0 /\ neglected = FALSE
  /\ (prim = "PbAtShell" => e \in {88000, 15000, 3000})
  /\ (prim # "PbAtShell" /\ prim # "pair" => e > ebk /\ ebk >= ebl /\ ebl >= ebm)

Keep == UNCHANGED <<prim, e, ebk, ebl, ebm>>

\* ---- nuclear transition ----------------------------------------------------
Gamma ==
  /\ stage = "start" /\ prim \in {"nucltransK", "nucltransKL", "nucltransKLM", "nucltransKLM_Pb"}
  /\ Emit("g", e) /\ stage' = "done" /\ Keep /\ UNCHANGED <<lholes, mholes, hole, neglected>>

Shells(p) == CASE p = "nucltransK" -> {"K"} [] p = "nucltransKL" -> {"K", "L"} [] OTHER -> {"K", "L", "M"}
Eb(sh) == CASE sh = "K" -> ebk [] sh = "L" -> ebl [] OTHER -> ebm

\* conversion electron; the binding energy is released next
Convert(sh) ==
  /\ stage = "start" /\ prim \in {"nucltransK", "nucltransKL", "nucltransKLM", "nucltransKLM_Pb"} /\ sh \in Shells(prim)
  /\ Emit("e-", e - Eb(sh))
  /\ stage' = (IF prim = "nucltransKLM_Pb" /\ sh = "K" THEN "pbk" ELSE "xray")
  /\ hole' = Eb(sh) /\ Keep /\ UNCHANGED <<lholes, mholes, neglected>>

XRay ==
  /\ stage = "xray" /\ Emit("g", hole) /\ stage' = "done" /\ Keep /\ UNCHANGED <<lholes, mholes, hole, neglected>>

\* Pb variant after a K conversion: two X-rays whose energies add up to the K binding energy of the call, or (4.8 %) nothing
PbK(x1, x2) ==
  /\ stage = "pbk" /\ <<x1, x2>> \in {<<74000, 14000>>, <<85000, 3000>>}
  /\ out' = out \o <<[c |-> "g", ev |-> x1], [c |-> "g", ev |-> x2]>>
  /\ stage' = "done" /\ Keep /\ UNCHANGED <<lholes, mholes, hole, neglected>>
PbKNeglected ==
  /\ stage = "pbk" /\ neglected' = TRUE /\ stage' = "done" /\ Keep /\ UNCHANGED <<out, lholes, mholes, hole>>

PairCreate ==
  /\ stage = "start" /\ prim \in {"nucltransK", "nucltransKL", "nucltransKLM", "nucltransKLM_Pb"} /\ e > TwoMe
  /\ stage' = "pair" /\ Keep /\ UNCHANGED <<out, lholes, mholes, hole, neglected>>

\* the pair primitive: electron and positron share the kinetic energy equally (BxDecay0 emits e- first)
Pair ==
  /\ \/ (stage = "pair" /\ out' = out \o <<[c |-> "e-", ev |-> (e - TwoMe) \div 2], [c |-> "e+", ev |-> (e - TwoMe) \div 2]>>)
     \/ (stage = "start" /\ prim = "pair" /\ out' = out \o <<[c |-> "e-", ev |-> e \div 2], [c |-> "e+", ev |-> e \div 2]>>)
  /\ stage' = "done" /\ Keep /\ UNCHANGED <<lholes, mholes, hole, neglected>>

\* ---- PbAtShell -------------------------------------------------------------
ShellStart ==
  /\ stage = "start" /\ prim = "PbAtShell"
  /\ stage' = (CASE e = 88000 -> "K" [] e = 15000 -> "L" [] OTHER -> "M")
  /\ lholes' = (IF e = 15000 THEN 1 ELSE 0) /\ mholes' = (IF e = 3000 THEN 1 ELSE 0)
  /\ Keep /\ UNCHANGED <<out, hole, neglected>>
KtoM == stage = "K" /\ Emit("g", 85000) /\ mholes' = mholes + 1 /\ stage' = "M" /\ Keep /\ UNCHANGED <<lholes, hole, neglected>>
KtoLX == stage = "K" /\ Emit("g", 73000) /\ lholes' = lholes + 1 /\ stage' = "L" /\ Keep /\ UNCHANGED <<mholes, hole, neglected>>
KtoLLAuger == stage = "K" /\ Emit("e-", 58000) /\ lholes' = lholes + 2 /\ stage' = "L" /\ Keep /\ UNCHANGED <<mholes, hole, neglected>>
LtoMX == stage = "L" /\ lholes > 0 /\ Emit("g", 12000) /\ lholes' = lholes - 1 /\ mholes' = mholes + 1 /\ Keep /\ UNCHANGED <<stage, hole, neglected>>
LtoMMAuger == stage = "L" /\ lholes > 0 /\ Emit("e-", 9000) /\ lholes' = lholes - 1 /\ mholes' = mholes + 2 /\ Keep /\ UNCHANGED <<stage, hole, neglected>>
LDone == stage = "L" /\ lholes = 0 /\ stage' = "M" /\ Keep /\ UNCHANGED <<out, lholes, mholes, hole, neglected>>
MX == stage = "M" /\ mholes > 0 /\ Emit("g", 3000) /\ mholes' = mholes - 1 /\ Keep /\ UNCHANGED <<stage, lholes, hole, neglected>>
MDone == stage = "M" /\ mholes = 0 /\ stage' = "done" /\ Keep /\ UNCHANGED <<out, lholes, mholes, hole, neglected>>

Next ==
  \/ Gamma \/ (\E sh \in {"K", "L", "M"} : Convert(sh)) \/ XRay \/ PbKNeglected \/ PairCreate \/ Pair
  \/ (\E x1 \in {74000, 85000}, x2 \in {14000, 3000} : PbK(x1, x2))
  \/ ShellStart \/ KtoM \/ KtoLX \/ KtoLLAuger \/ LtoMX \/ LtoMMAuger \/ LDone \/ MX \/ MDone

Spec == Init /\ [][Next]_vars

-----------------------------------------------------------------------------
\* energy conservation of every completed primitive (pair called directly: e is the kinetic energy of the pair)
EnergyConserved ==
  stage = "done" =>
    CASE prim = "pair" -> SumVis(out, 1) \in {e + TwoMe - 1, e + TwoMe}
      [] neglected -> SumVis(out, 1) = e - ebk
      [] prim = "nucltransKLM_Pb" /\ Len(out) = 3 -> SumVis(out, 1) = e - ebk + 88000   \* the two X-rays are those of Pb (88 keV)
      [] OTHER -> SumVis(out, 1) \in {e - 1, e}

\* at most 7 particles from the atomic cascade, 3 from a transition
Bounded == Len(out) <= 7 /\ (prim # "PbAtShell" => Len(out) <= 3)
NoHolesLeft == stage = "done" => (lholes = 0 /\ mholes = 0)
=============================================================================
