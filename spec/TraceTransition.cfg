SPECIFICATION TraceSpec
CONSTANTS
  Prims <- MCPrims
  Egs <- MCNone
  EbKs <- MCNone
  EbLs <- MCNone
  EbMs <- MCNone
CONSTRAINT ProgressGood
POSTCONDITION Accepted
CHECK_DEADLOCK FALSE
