SPECIFICATION Spec
CONSTANTS
  Isotopes <- MCIsotopes
  Levels <- MCLevels
  Modes <- MCModesGa
  MaxOps = 1
  MaxCount = 2
  GaData = TRUE
INVARIANTS TypeOK InitOnlyIfAccepted NotInitCountZero
PROPERTIES ShootOnlyWhenInit FrozenWhenInit FailedInitHarmless
CHECK_DEADLOCK FALSE
