SPECIFICATION Spec
CONSTANTS
  Events <- MCEventsQuick
  EventId = 7
INVARIANTS TypeOK RoundTrip ExactWhenShort Restorable Shape
CHECK_DEADLOCK FALSE
