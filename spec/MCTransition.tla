---------------------------- MODULE MCTransition ----------------------------
EXTENDS Transition
MCPrims == {"nucltransK", "nucltransKL", "nucltransKLM", "nucltransKLM_Pb", "pair", "PbAtShell"}
MCEgs == {88000, 15000, 3000, 511000, 1173000, 2614000}
MCEbKs == {8000, 88000}
MCEbLs == {1000, 15000}
MCEbMs == {0, 3000}
=============================================================================
