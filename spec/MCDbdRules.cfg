SPECIFICATION Spec
CONSTANTS
  Isos <- MCIsos
  Levels <- MCLevels
  ModeIds <- MCModeIds
  GaData <- MCGaNone
INVARIANTS FourBetaOnlyThree GaOnlyFourGroundStates WindowOnlyOnWindowModes UnknownRefused LibraryWithinReference PositiveEnergy EveryIsotopeHasAMode CataloguesAgree ModeLabelsBijective Export
CHECK_DEADLOCK FALSE
