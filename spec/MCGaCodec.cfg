SPECIFICATION Spec
CONSTANTS
  S = 9
  ND = 7
  Values <- ValuesQuick
  MaxLen = 5
  Export = TRUE
INVARIANTS TypeOK RoundTrip NonDecreasing InUnitInterval EndsAtOne WellFormedLine ExportDone
CHECK_DEADLOCK FALSE
