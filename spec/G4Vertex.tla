------------------------------ MODULE G4Vertex ------------------------------
(* The command of the point-like vertex generator of the Geant4 extension,    *)
(*   /bxdecay0/upvg/vertex X Y Z [UNIT]                                        *)
(* (bxdecay0_g4::UniquePointVertexGeneratorMessenger): the source position      *)
(* that C17's "common vertex supplied by the vertex generator" is read from.    *)
(* Positions in micrometres.  The command layer rejects a line with fewer than  *)
(* three coordinates or a word where a number is expected (nothing changes).    *)
(* Named deviation UnknownUnitIsMm: a unit word the messenger does not know is  *)
(* silently read as mm (refusing the line is allowed as well).                  *)
EXTENDS Integers, TLC
VARIABLES vtx, res
vars == <<vtx, res>>
Units == {"absent", "mm", "cm", "m", "micrometer", "km"}
UnitUm(u) == CASE u = "mm" -> 1000 [] u = "cm" -> 10000 [] u = "m" -> 1000000 [] u = "micrometer" -> 1 [] OTHER -> 0
Init == vtx = <<0, 0, 0>> /\ res = "ok"
Scaled(x, y, z, k) == <<x * k, y * k, z * k>>
Vertex(x, y, z, u) ==
  /\ res' = "ok"
  /\ IF u = "absent" THEN vtx' = Scaled(x, y, z, 1000)
     ELSE IF UnitUm(u) # 0 THEN vtx' = Scaled(x, y, z, UnitUm(u))
     ELSE vtx' \in {Scaled(x, y, z, 1000), vtx}
Short == res' = "ui-rejected" /\ UNCHANGED vtx
Garbled == res' = "ui-rejected" /\ UNCHANGED vtx
Next == (\E u \in Units : Vertex(1, -2, 3, u)) \/ (\E u \in {"absent", "cm"} : Vertex(-5, 0, 7, u)) \/ Vertex(0, 0, 0, "absent") \/ Short \/ Garbled
Spec == Init /\ [][Next]_vars
TypeOK == res \in {"ok", "ui-rejected"}
\* the position is always one a command line named, in one of the known units (or the origin)
Named == vtx = <<0, 0, 0>> \/ \E k \in {1, 1000, 10000, 1000000} : vtx \in {Scaled(1, -2, 3, k), Scaled(-5, 0, 7, k)}
=============================================================================
