\* Reader.tla, thorough tier: <= 3 files x <= 3 events, start 0..7, max 0..4, <= 10 calls
SPECIFICATION Spec
CONSTANTS
  MaxFiles = 3
  MaxPerFile = 3
  MaxStart = 7
  MaxMax = 4
  MaxCalls = 10
INVARIANTS TypeOK DeliveredIsWindowPrefix WindowIsSlice ExactlyTheWindow AnnouncedLoads EmptyWindowSilent TermSilent
PROPERTIES AnnouncedLoadsStep LoadedCounts TermAbsorbing TermStep
CHECK_DEADLOCK FALSE
