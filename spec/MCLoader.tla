------------------------------ MODULE MCLoader ------------------------------
(* Model constants for Loader: one valid document per input format, written as *)
(* the token sequences the real writers produce:                                *)
(*   event    - bxdecay0-run's .d0t record file (event::store behind an id)     *)
(*   pdf/ocdf - resources/data/dbd_gA/tools/mkocdfdata.py (save_tab_pdf /       *)
(*              save_tab_ncdf with the '^n' / '!1' codec), 5 energy samples      *)
(*   lis_*    - the layout of resources/description/*.lis (reduced catalogues)  *)
(*   argv*    - command lines of bxdecay0-run's own help text                   *)
EXTENDS Loader

NL == <<"nl", "nl", "">>
I(r, v) == <<"int", r, v>>
C(r, v) == <<"count", r, v>>
R(r, v) == <<"real", r, v>>
N(r, v) == <<"name", r, v>>
W(v) == <<"word", "desc", v>>
Cm(v) == <<"comment", "comment", v>>
O(v) == <<"opt", "opt", v>>
Cum(v) == <<"cum", "cum", v>>
One == <<"one", "one", "!1">>
P(v) == R("prob", v)
D(v) == R("cprob", v)

\* ---------------------------------------------------------------- event file
Hdr(id, t, g) == <<I("evid", id), R("evtime", t), N("gen", g), NL>>
Cnt(n) == <<C("npart", n), NL>>
Part(c, t, x, y, z) == <<I("code", c), R("ptime", t), R("px", x), R("py", y), R("pz", z), NL>>

EventDoc ==
     Hdr("0", "0", "Co60") \o Cnt("3")
  \o Part("3", "0", "0.252695269267801", "-0.109930399463988", "-0.0107092710544951")
  \o Part("1", "1.62628613135178e-13", "-0.475313116564023", "0.887782221121431", "-0.601539000467047")
  \o Part("1", "6.23537918509818e-13", "0.0434040146815501", "-0.565208198307381", "1.20645960731209")
  \o <<NL>>
  \o Hdr("1", "0.731", "Co60") \o Cnt("1")
  \o Part("1", "2.96102506640457e-13", "-0.498990226162041", "0.11336324628739", "1.05550297421937")
  \o <<NL>>
  \o Hdr("2", "1.25e+03", "Co60") \o Cnt("2")
  \o Part("2", "0", "1e-300", "-4.94065645841247e-324", "0")
  \o Part("47", "1e+300", "-0.55853466488398", "0.497790605348303", "-1.10323730056136")
  \o <<NL>>

\* ---------------------------------------------------------------- gA tables (5 samples, 0.2 .. 2.6 MeV, Q = 3 MeV)
GaHead(label) ==
  <<Cm("#isotope=Test"), NL, Cm("#dbd_ga.mode=g0"), NL,
    R("esum", "3.0000"), NL,
    <<"kw", "label", label>>, R("emin", "2.0000000000000001e-01"), R("emax", "2.6000000000000001e+00"),
    R("estep", "5.9999999999999998e-01"), C("nsamples", "5"), NL>>

PdfDoc ==
     GaHead("Probability")
  \o <<P("5.0000000e-02"), P("2.0000000e-01"), P("3.0000000e-01"), P("2.0000000e-01"), P("5.0000000e-02"), NL>>
  \o <<P("2.0000000e-01"), P("3.5000000e-01"), P("2.5000000e-01"), P("1.0000000e-01"), NL>>
  \o <<P("3.0000000e-01"), P("3.0000000e-01"), P("1.0000000e-01"), NL>>
  \o <<P("2.0000000e-01"), P("1.0000000e-01"), NL>>
  \o <<P("5.0000000e-02"), NL>>

OcdfDoc ==
     GaHead("CumulativeProbability")
  \o <<Cum("^0"), D("2.152174"), D("5.108696"), D("7.934783"), Cum("^1"), D("4.565217"), One, NL>>
  \o <<Cum("^0"), D("1.052632"), D("3.157895"), D("6.315789"), Cum("^1"), D("4.736842"), One, NL>>
  \o <<Cum("^0"), D("2.222222"), D("6.111111"), D("8.888889"), One, NL>>
  \o <<Cum("^0"), D("4.285714"), D("8.571429"), One, NL>>
  \o <<Cum("^0"), D("6.666667"), One, NL>>
  \o <<One, NL>>

\* ---------------------------------------------------------------- catalogue lists (reduced)
Names(r, ns) == [i \in 1..(2 * Len(ns)) |-> IF i % 2 = 1 THEN N(r, ns[(i + 1) \div 2]) ELSE NL]

LisDbdDoc == <<Cm("# List of supported double beta decay isotopes"), NL, NL>>
             \o Names("iso", <<"Ca48", "Ge76", "Se82", "Zr96", "Mo100", "Cd116", "Xe136", "Nd150">>)
LisBkgDoc == <<NL>> \o Names("iso", <<"Bi214+Po214", "Co60", "Cs137+Ba137m", "K40", "Tl208", "Y90">>)
             \o <<Cm("# end"), NL>>

Mode(m, l, g, ws) == <<I("mode", m), N("label", l), I("legacy", g)>> \o ws \o <<NL>>
\* all 24 modes of the shipped list (the library assumes the list is complete); description cut to its first word
LisModesDoc ==
     <<Cm("# List of supported double beta decay modes"), NL, Cm("#"), NL>>
  \o Mode("1", "0nubb_mn", "1", <<W("0nubb(mn)")>>)
  \o Mode("2", "0nubb_rhc_lambda_0", "2", <<W("0nubb(rhc-lambda)")>>)
  \o Mode("3", "0nubb_rhc_lambda_02", "3", <<W("0nubb(rhc-lambda)")>>)
  \o Mode("4", "2nubb", "4", <<W("2nubb")>>)
  \o Mode("5", "0nubbM1", "5", <<W("0nubbM1")>>)
  \o Mode("6", "0nubbM3", "7", <<W("0nubbM3")>>)
  \o Mode("7", "0nubb_rhc_lambda_2", "9", <<W("0nubb(rhc-lambda)")>>)
  \o Mode("8", "2nubb_2", "10", <<W("2nubb")>>)
  \o Mode("9", "0nuKb+", "11", <<W("0nuKb+")>>)
  \o Mode("10", "2nuKb+", "12", <<W("2nuKb+")>>)
  \o Mode("11", "0nu2K", "13", <<W("0nu2K")>>)
  \o Mode("12", "2nu2K", "14", <<W("2nu2K")>>)
  \o Mode("13", "0nubbM7", "8", <<W("0nubbM7")>>)
  \o Mode("14", "0nubbM2", "6", <<W("0nubbM2")>>)
  \o Mode("15", "2nubb_bosonic_0", "15", <<W("2nubb")>>)
  \o Mode("16", "2nubb_bosonic_2", "16", <<W("2nubb")>>)
  \o Mode("17", "0nubb_rhc_eta_s", "17", <<W("0nubb(rhc-eta)")>>)
  \o Mode("18", "0nubb_rhc_eta_nmes", "18", <<W("0nubb(rhc-eta)")>>)
  \o Mode("19", "2nub_lv", "19", <<W("2nubb(LV)")>>)
  \o Mode("20", "0nu4b", "20", <<W("0nu4b")>>)
  \o Mode("21", "2nubb_gA_g0", "-1", <<W("2nubbg0")>>)
  \o Mode("22", "2nubb_gA_g2", "-1", <<W("2nubbg2")>>)
  \o Mode("23", "2nubb_gA_g22", "-1", <<W("2nubbg22")>>)
  \o Mode("24", "2nubb_gA_g4", "-1", <<W("2nubbg4")>>)
  \o <<Cm("# end"), NL>>

\* ---------------------------------------------------------------- command lines
V(k, r, v) == <<k, r, v>>
Argv1Doc == <<O("-s"), V("int", "seed", "314159"), O("-n"), V("int", "nev", "3"), O("-c"), V("name", "category", "background"),
              O("-N"), V("name", "nuclide", "Co60"), V("name", "basename", "<BASE>")>>
Argv2Doc == <<O("--decay-category"), V("name", "category", "dbd"), O("--nuclide"), V("name", "nuclide", "Mo100"),
              O("--level"), V("int", "level", "0"), O("--dbd-mode"), V("int", "mode", "4"),
              O("--dbd-emin"), V("real", "emin", "0.5"), O("--dbd-emax"), V("real", "emax", "2.5"),
              O("--activity"), V("real", "activity", "1.5"), O("--nb-events"), V("int", "nev", "2"),
              O("--basename"), V("name", "basename", "<BASE>")>>
Argv3Doc == <<O("-c"), V("name", "category", "background"), O("-N"), V("name", "nuclide", "Cs137+Ba137m"),
              O("-n"), V("int", "nev", "2"), O("-g"), V("name", "logging", "mute"),
              O("--pgop-mdl-particle"), V("name", "mdlparticle", "e-"), O("--pgop-mdl-rank"), V("int", "mdlrank", "0"),
              O("--pgop-mdl-cone-phi"), V("real", "mdlphi", "0.0"), O("--pgop-mdl-cone-theta"), V("real", "mdltheta", "90.0"),
              O("--pgop-mdl-cone-aperture"), V("real", "mdlaperture", "5.0"), V("name", "basename", "<BASE>")>>

MCFormats == {"event", "pdf", "ocdf", "lis_dbd", "lis_bkg", "lis_modes", "argv1", "argv2", "argv3"}
MCArgvFormats == {"argv1", "argv2", "argv3"}
MCDoc == [f \in MCFormats |->
            CASE f = "event" -> EventDoc
              [] f = "pdf" -> PdfDoc
              [] f = "ocdf" -> OcdfDoc
              [] f = "lis_dbd" -> LisDbdDoc
              [] f = "lis_bkg" -> LisBkgDoc
              [] f = "lis_modes" -> LisModesDoc
              [] f = "argv1" -> Argv1Doc
              [] f = "argv2" -> Argv2Doc
              [] f = "argv3" -> Argv3Doc]
=============================================================================
