------------------------------ MODULE TraceMDL ------------------------------
(* Trace validation for MDL: TLC decides whether the observations recorded    *)
(* from the real operation (harness/mdl_replay.cc --gen / --random, one       *)
(* ndjson line per spec action) are behaviours of MDL.tla.                    *)
(*                                                                             *)
(*  {"e":"Configure","filter":f,"rank":r,"err":b,"cone":"circ|rect","entry":..}*)
(*  {"e":"Apply","species":[..],"threw":b,"changed":[..],"incone":[..],        *)
(*   "rigid":b,"last":i,"draws":d}                                             *)
(*  {"e":"Reset"}                 next execution (a new operation object)      *)
(*                                                                             *)
(* changed = indices whose momentum differs bitwise after the application,     *)
(* incone  = indices the harness found inside the requested cone afterwards,   *)
(* rigid   = Gram matrix and orientation of the whole event preserved.         *)
(* Events are not bounded here (the species come from the log).                *)
EXTENDS MDL, Json, IOUtils

TraceLog == ndJsonDeserialize(IOEnv.TRACE)

VARIABLE l
tvars == <<vars, l>>

TInit == Init /\ l = 1

L == TraceLog[l]
IsEv(e) == l <= Len(TraceLog) /\ L.e = e
AsSet(s) == {s[i] : i \in DOMAIN s}

TConfigure ==
  /\ IsEv("Configure")
  /\ Configure([filter |-> L.filter, rank |-> L.rank, err |-> L.err, cone |-> L.cone, entry |-> L.entry])
  /\ l' = l + 1

TApply ==
  /\ IsEv("Apply")
  /\ LET e == L.species
         o == Decide(e, conf)
         k == (L.draws - 2 * o.acc) \div 2
     IN /\ Apply(e, k)
        /\ draws' = L.draws                              \* parity and ledger
        /\ L.threw <=> (o.kind = "Error")
        /\ AsSet(L.changed) \subseteq o.may              \* every other particle is untouched
        /\ o.cone \subseteq AsSet(L.incone)              \* target / selected particles are inside the cone
        /\ (o.kind = "RotateAll" => L.rigid)
        /\ (~L.threw => L.last = o.last)
  /\ l' = l + 1

TReset ==
  /\ IsEv("Reset")
  /\ phase' = "fresh" /\ conf' = NoConf /\ species' = <<>> /\ out' = NoResult /\ draws' = 0
  /\ l' = l + 1

TNext == TConfigure \/ TApply \/ TReset
TSpec == TInit /\ [][TNext]_tvars

\* the invariants of MDL that do not depend on the model bounds
TNothingSelected == NothingSelected
TTargetMode == TargetMode
TSelectionMode == SelectionMode
TLedger == Ledger

Accepted == TLCGet("stats").diameter - 1 = Len(TraceLog)
=============================================================================
