------------------------------ MODULE Handover ------------------------------
(* Generators prepared on one thread and used on another (property C12, and   *)
(* C07: "an event depends only on configuration and deviates").  A pool of     *)
(* worker threads takes prepared generators from a shelf: the thread that       *)
(* initialises a generator, the threads that shoot it and the one that resets   *)
(* it need not be the same - only one thread holds a given generator at a time, *)
(* so the instances stay independent in the sense of the property.              *)
(*                                                                             *)
(* Initialisation leaves tables for the shots (spectra, cumulative tables, a    *)
(* data root).  Scope says where they are kept:                                 *)
(*   "object"  - members of the generator: they travel with it                  *)
(*   "thread"  - thread_local storage of the initialising thread                *)
(*   "process" - a function-local static                                        *)
(* The value kept is abstracted as the generator's identity; out[g] collects    *)
(* what g's shots read back.  Independent: every shot of g reads g's tables.    *)
(* TLC: with Scope = "thread" the property holds as long as no generator moves  *)
(* (Migration = FALSE: generator g stays on thread g - what a test with one generator per thread sees) and      *)
(* fails as soon as one does; the replay (harness/share_sched.cc --mode         *)
(* handover) therefore initialises, shoots and resets every generator on three  *)
(* different threads.                                                           *)
EXTENDS Naturals, Sequences, FiniteSets

CONSTANTS Gens, Threads, Scope, Migration, Shots

VARIABLES
  at,      \* generator -> thread holding it, 0 = on the shelf
  home,    \* generator -> thread that took it first (0 = never taken)
  phase,   \* generator -> "fresh" | "ready" | "reset"
  store,   \* owner -> value (0 = never written)
  out      \* generator -> sequence of values read back by its shots

vars == <<at, home, phase, store, out>>

Owners == Gens \cup {100 + t : t \in Threads} \cup {0}
Owner(g, t) == IF Scope = "object" THEN g ELSE IF Scope = "thread" THEN 100 + t ELSE 0

Init ==
  /\ at = [g \in Gens |-> 0]
  /\ home = [g \in Gens |-> 0]
  /\ phase = [g \in Gens |-> "fresh"]
  /\ store = [o \in Owners |-> 0]
  /\ out = [g \in Gens |-> <<>>]

\* thread t takes generator g from the shelf (without Migration: generator g lives on thread g - one generator per thread)
Take(g, t) ==
  /\ at[g] = 0 /\ phase[g] # "reset"
  /\ Migration \/ t = g
  /\ at' = [at EXCEPT ![g] = t]
  /\ home' = [home EXCEPT ![g] = IF @ = 0 THEN t ELSE @]
  /\ UNCHANGED <<phase, store, out>>

Park(g) ==
  /\ at[g] # 0
  /\ at' = [at EXCEPT ![g] = 0]
  /\ UNCHANGED <<home, phase, store, out>>

Initialise(g) ==
  /\ at[g] # 0 /\ phase[g] = "fresh"
  /\ store' = [store EXCEPT ![Owner(g, at[g])] = g]
  /\ phase' = [phase EXCEPT ![g] = "ready"]
  /\ UNCHANGED <<at, home, out>>

Shoot(g) ==
  /\ at[g] # 0 /\ phase[g] = "ready" /\ Len(out[g]) < Shots
  /\ out' = [out EXCEPT ![g] = Append(@, store[Owner(g, at[g])])]
  /\ UNCHANGED <<at, home, phase, store>>

Reset(g) ==
  /\ at[g] # 0 /\ phase[g] = "ready"
  /\ phase' = [phase EXCEPT ![g] = "reset"]
  /\ UNCHANGED <<at, home, store, out>>

Next == \E g \in Gens : (\E t \in Threads : Take(g, t)) \/ Park(g) \/ Initialise(g) \/ Shoot(g) \/ Reset(g)
Spec == Init /\ [][Next]_vars

TypeOK ==
  /\ at \in [Gens -> Threads \cup {0}]
  /\ phase \in [Gens -> {"fresh", "ready", "reset"}]
  /\ \A g \in Gens : Len(out[g]) <= Shots

\* one thread holds a generator at a time: nothing here is a concurrent use of one instance
Independent == \A g \in Gens : \A i \in DOMAIN out[g] : out[g][i] = g

\* the schedule the replay forces: initialised, shot and reset by three different threads
ThreeHands(g) == \E t1, t2 \in Threads : t1 # t2 /\ home[g] = t1 /\ at[g] = t2
=============================================================================
