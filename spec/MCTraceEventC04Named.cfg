SPECIFICATION TraceSpec
CONSTANTS
  KeMax = 1200000000
  Species <- MCSpecies
  Energies <- MCEnergies
INVARIANTS WellFormed
CONSTRAINT Progress
POSTCONDITION Accepted
CHECK_DEADLOCK FALSE
