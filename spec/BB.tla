--------------------------------- MODULE BB ---------------------------------
(* Control flow of the double-beta sampler (decay0_bb), one action per step   *)
(* of the code: spectrum initialisation, first-lepton rejection trial with    *)
(* its 1-keV table index k, second-lepton range/trial, angular trial, and the *)
(* emissions.  Energies are integers in units of 0.01 eV (1 MeV = 10^8).      *)
(*                                                                            *)
(* Modes (BxDecay0 numbering = GENBBsub numbering):                           *)
(*   fixed     : 9 (e+ + X), 11 (gamma + 2 X), 12 (2 X)   no sampling at all  *)
(*   kb        : 10 (e+ from a spectrum + X)                                  *)
(*   sum       : 1 2 3 7 17 18   two leptons, e2 = e0 - e1                    *)
(*   window    : 4 5 6 8 13 14 15 16 19   two leptons + neutrinos/Majorons,   *)
(*               energy-sum window [ebb1, ebb2] honoured                      *)
(*   four      : 20   four electrons                                          *)
EXTENDS Integers, Sequences, FiniteSets, TLC

CONSTANTS
  Modes,        \* modes explored
  E0s,          \* values of e0 (0.01 eV) explored
  Grid,         \* step of the energy grid used for e1, e2, window bounds in the model (0.01 eV)
  Slack         \* rounding allowance (0.01 eV units) when the energies come from a recorded execution; 0 in the model

VARIABLES mode, zneg, e0, ebb1, ebb2, imax, stage, e1, e2, k, np, species, started

vars == <<mode, zneg, e0, ebb1, ebb2, imax, stage, e1, e2, k, np, species, started>>

MeV == 100000000
KeV == 100000
TableSize == 4300

FixedModes  == {9, 11, 12}
SumModes    == {1, 2, 3, 7, 17, 18}
WindowModes == {4, 5, 6, 8, 13, 14, 15, 16, 19}
AllModes    == 1..20

Min(a, b) == IF a < b THEN a ELSE b
Max(a, b) == IF a > b THEN a ELSE b
\* nearest integer of x/KeV for x >= 0 (Fortran nint)
Nint(x) == (x + KeV \div 2) \div KeV

Init ==
  /\ mode \in Modes /\ zneg \in BOOLEAN /\ e0 \in E0s
  /\ ebb1 = 0 /\ ebb2 = e0
  /\ imax = e0 \div KeV
  /\ stage = "enter" /\ e1 = -1 /\ e2 = -1 /\ k = 0 /\ np = 0 /\ species = <<>> /\ started = FALSE

Lepton == IF zneg THEN "e+" ELSE "e-"

\* modes 9, 11, 12: nothing is sampled
EmitFixed ==
  /\ stage = "enter" /\ mode \in FixedModes
  /\ species' = CASE mode = 9 -> <<"e+", "g">> [] mode = 11 -> <<"g", "g", "g">> [] mode = 12 -> <<"g", "g">>
  /\ np' = Len(species') /\ stage' = "done"
  /\ UNCHANGED <<mode, zneg, e0, ebb1, ebb2, imax, e1, e2, k, started>>

\* first call: the window is clamped into [0, e0] and the first-lepton table is filled for bins 1..imax
InitSpectrum(w1, w2) ==
  /\ stage = "enter" /\ mode \notin FixedModes /\ ~started
  /\ ebb1' = Max(0, w1) /\ ebb2' = Min(e0, w2)
  /\ started' = TRUE /\ stage' = "trial1"
  /\ UNCHANGED <<mode, zneg, e0, imax, e1, e2, k, np, species>>

Resume ==
  /\ stage = "enter" /\ mode \notin FixedModes /\ started
  /\ stage' = IF mode = 20 THEN "trial4" ELSE "trial1"
  /\ UNCHANGED <<mode, zneg, e0, ebb1, ebb2, imax, e1, e2, k, np, species, started>>

\* four-electron mode: three energies drawn, the fourth is the rest; rejected when negative or by the spectrum
Trial4(acc) ==
  /\ stage \in {"trial1", "trial4"} /\ mode = 20
  /\ stage' = IF acc THEN "emit4" ELSE "trial4"
  /\ UNCHANGED <<mode, zneg, e0, ebb1, ebb2, imax, e1, e2, k, np, species, started>>

Emit4 ==
  /\ stage = "emit4"
  /\ species' = <<"e-", "e-", "e-", "e-">> /\ np' = 4 /\ stage' = "done"
  /\ UNCHANGED <<mode, zneg, e0, ebb1, ebb2, imax, e1, e2, k, started>>

\* first lepton: e1 uniform in (0, ebb2] (mode 10: in [ebb1, ebb2]); table bin k = nint(e1/keV) clamped to >= 1
Trial1(x, acc) ==
  /\ stage = "trial1" /\ mode # 20
  /\ x >= (IF mode = 10 THEN ebb1 ELSE 0) - Slack /\ x <= ebb2 + Slack
  /\ e1' = x
  /\ k' = Max(1, Nint(x))
  /\ stage' = IF ~acc THEN "trial1"
              ELSE IF mode = 10 THEN "emitkb"
              ELSE IF mode \in SumModes THEN "pair" ELSE "scan2"
  /\ e2' = IF acc /\ mode \in SumModes THEN Max(0, e0 - x) ELSE e2
  /\ UNCHANGED <<mode, zneg, e0, ebb1, ebb2, imax, np, species, started>>

EmitKb ==
  /\ stage = "emitkb"
  /\ species' = <<"e+", "g">> /\ np' = 2 /\ stage' = "done"
  /\ UNCHANGED <<mode, zneg, e0, ebb1, ebb2, imax, e1, e2, k, started>>

\* second lepton of the window modes: the majorant of its spectrum is searched on the 1-keV grid points ks..kf that lie in
\* [max(0, ebb1-e1), ebb2-e1] - ks is the grid point at or just BELOW the lower end (truncation, as in Decay0:
\* max0(1,int(re2s*1000.))), so the majorant covers the whole range
Scan2(ks, kf) ==
  /\ stage = "scan2"
  /\ LET lo == Max(0, ebb1 - e1)
         hi == ebb2 - e1 IN
     /\ ks \in {Max(1, Max(0, lo - Slack) \div KeV), Max(1, (lo + Slack) \div KeV)}
     /\ kf \in {Max(0, hi - Slack) \div KeV, (hi + Slack) \div KeV}
  /\ stage' = "trial2"
  /\ UNCHANGED <<mode, zneg, e0, ebb1, ebb2, imax, e1, e2, k, np, species, started>>

\* second lepton of the window modes: uniform in [max(0, ebb1-e1), ebb2-e1]
Trial2(y, acc) ==
  /\ stage = "trial2"
  /\ y >= Max(0, ebb1 - e1) - Slack /\ y <= ebb2 - e1 + Slack
  /\ e2' = y
  /\ stage' = IF acc THEN "pair" ELSE "trial2"
  /\ UNCHANGED <<mode, zneg, e0, ebb1, ebb2, imax, e1, k, np, species, started>>

Pair ==
  /\ stage = "pair"
  /\ stage' = "trial3"
  /\ UNCHANGED <<mode, zneg, e0, ebb1, ebb2, imax, e1, e2, k, np, species, started>>

Trial3(acc) ==
  /\ stage = "trial3"
  /\ stage' = IF acc THEN "emit2" ELSE "trial3"
  /\ UNCHANGED <<mode, zneg, e0, ebb1, ebb2, imax, e1, e2, k, np, species, started>>

Emit2 ==
  /\ stage = "emit2"
  /\ species' = <<Lepton, Lepton>> /\ np' = 2 /\ stage' = "done"
  /\ UNCHANGED <<mode, zneg, e0, ebb1, ebb2, imax, e1, e2, k, started>>

\* next event with the same tables
Again ==
  /\ stage = "done"
  /\ stage' = "enter" /\ e1' = -1 /\ e2' = -1 /\ k' = 0 /\ np' = 0 /\ species' = <<>>
  /\ UNCHANGED <<mode, zneg, e0, ebb1, ebb2, imax, started>>

\* the model's sample points of an interval: both ends, points just inside them, and a regular grid
GridVals(lo, hi) ==
  IF hi < lo THEN {}
  ELSE {lo, hi} \cup {lo + i * Grid : i \in 0..((hi - lo) \div Grid)}
       \cup {v \in {lo + 1, hi - 1, lo + KeV \div 2, lo + KeV \div 2 - 1, hi - KeV \div 2, hi - KeV \div 2 + 1} : lo <= v /\ v <= hi}

Next ==
  \/ EmitFixed \/ Resume \/ Emit4 \/ EmitKb \/ Pair \/ Emit2 \/ Again
  \/ \E w1 \in {0 - Grid} \cup GridVals(0, e0), w2 \in GridVals(0, e0) \cup {e0 + Grid, 430000000} :
        w1 < w2 /\ InitSpectrum(w1, w2)
  \/ \E acc \in BOOLEAN : Trial4(acc) \/ Trial3(acc)
  \/ \E x \in GridVals(IF mode = 10 THEN ebb1 ELSE 0, ebb2), acc \in BOOLEAN : Trial1(x, acc)
  \/ (stage = "scan2" /\ Scan2(Max(1, Max(0, ebb1 - e1) \div KeV), (ebb2 - e1) \div KeV))
  \/ \E y \in GridVals(Max(0, ebb1 - e1), ebb2 - e1), acc \in BOOLEAN : stage = "trial2" /\ ebb2 - e1 >= 0 /\ Trial2(y, acc)

Spec == Init /\ [][Next]_vars

-----------------------------------------------------------------------------
TypeOK ==
  /\ mode \in AllModes /\ stage \in {"enter", "trial1", "scan2", "trial2", "trial3", "trial4", "pair", "emit2", "emit4", "emitkb", "done"}

\* the table bin used by the first-lepton test lies inside the table (k-1 indexes spthe1[0..4299]); beyond imax the
\* table is zero, so k = imax + 1 (possible with nearest-integer rounding) is always rejected, never out of bounds
IndexInTable == (stage \in {"trial1", "scan2", "trial2", "pair", "emitkb"} /\ k # 0) => (k >= 1 /\ k <= imax + 2 /\ k <= TableSize)

\* the window is inside [0, e0] once the sampler is initialised
WindowClamped == started => (0 <= ebb1 /\ ebb2 <= e0 + Slack)

\* energy bookkeeping of an accepted lepton pair
PairEnergies ==
  stage \in {"pair", "trial3", "emit2"} =>
    /\ e1 >= 0 /\ e2 >= 0 - Slack
    /\ (mode \in SumModes => (e1 + e2 >= e0 - Slack /\ e1 + e2 <= e0 + Slack))
    /\ (mode \in WindowModes => (ebb1 - Slack <= e1 + e2 /\ e1 + e2 <= ebb2 + Slack))
    /\ e1 + e2 <= e0 + Slack

\* multiplicity and species per mode
Emission ==
  stage = "done" =>
    CASE mode = 9 -> species = <<"e+", "g">>
      [] mode = 10 -> species = <<"e+", "g">>
      [] mode = 11 -> species = <<"g", "g", "g">>
      [] mode = 12 -> species = <<"g", "g">>
      [] mode = 20 -> species = <<"e-", "e-", "e-", "e-">>
      [] OTHER -> species = <<Lepton, Lepton>>
=============================================================================
