----------------------------- MODULE MCDbdRules -----------------------------
EXTENDS DbdRules
MCIsos == DbdNames \cup {"Xx999", "", "Co60", "Mo10"}
\* (a name that merely starts with a published name, e.g. "Mo1000", is accepted by the reference as well: GENBBsub
\*  compares leading characters only; such names are outside the grid)
MCLevels == -1..17
MCModeIds == 0..25
MCGaNone == {}
MCGaMounted == {<<"Mo100", 21>>}
=============================================================================
