----------------------------- MODULE MCDbdRules -----------------------------
EXTENDS DbdRules
MCIsos == DbdNames \cup {"Xx999", "", "Co60", "Mo10"}
\* (a name that merely starts with a published name, e.g. "Mo1000", is accepted by the reference as well: GENBBsub
\*  compares leading characters only; such names are outside the grid)
MCLevels == -1..17
MCModeIds == 0..25
MCGaNone == {}
\* a partially installed dataset tree: every gA mode is mounted for some isotope and missing for another one, and no isotope
\* has all four (a mode routed to another process' table is then accepted or refused wrongly)
MCGaMounted == {<<"Mo100", 21>>, <<"Mo100", 22>>, <<"Mo100", 24>>, <<"Se82", 23>>, <<"Cd116", 22>>, <<"Cd116", 24>>,
                <<"Nd150", 21>>, <<"Nd150", 23>>}
=============================================================================
