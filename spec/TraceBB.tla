------------------------------- MODULE TraceBB -------------------------------
(* Trace validation of the double-beta sampler against BB.tla.                *)
(* One line per step of decay0_bb as logged by the hooks in bb.cc             *)
(* (harness/cosim.cc --bb-trace), energies as integers in 0.01 eV:            *)
(*  {"e":"Reset"}                                                             *)
(*  {"e":"Enter","mode":m,"zneg":0|1,"q":..,"edl":..,"ek":..,"ebb1":..,"ebb2":..,"started":0|1} *)
(*  {"e":"Init","e0":..,"ebb1":..,"ebb2":..,"imax":..}   first call only       *)
(*  {"e":"T1","e1":..,"k":..,"acc":0|1}  {"e":"T2","e2":..,"acc":0|1}          *)
(*  {"e":"S2","ks":..,"kf":..}  grid range of the second-lepton majorant scan   *)
(*  {"e":"Pair","e1":..,"e2":..}  {"e":"T3","acc":0|1}  {"e":"T4","acc":0|1}   *)
(*  {"e":"Part","c":"e-"|"e+"|"g"}   particles emitted by the sampler itself    *)
(*  {"e":"Leave"}                                                              *)
(* Every invariant of BB (table index, window, energy bookkeeping, species)    *)
(* is evaluated on every observed step.                                        *)
EXTENDS BB, Json, IOUtils

VARIABLES l, parts

tvars == <<vars, l, parts>>

Log == ndJsonDeserialize(IOEnv.TRACE)

EMass == 51099906     \* 0.51099906 MeV (the constant of Decay0) in 0.01 eV

\* e0 as the admission rules define it (GENBBsub / bb)
E0Of(m, zn, q, edl, ek) ==
  IF m \in {9, 10} THEN q - edl - ek - 2 * EMass
  ELSE IF m \in {11, 12} THEN q - edl - 2 * ek
  ELSE IF zn THEN q - edl - 4 * EMass
  ELSE q - edl

IsEvent(e) == l <= Len(Log) /\ Log[l].e = e /\ l' = l + 1

TInit ==
  /\ mode = 1 /\ zneg = FALSE /\ e0 = 0 /\ ebb1 = 0 /\ ebb2 = 0 /\ imax = 0 /\ stage = "idle"
  /\ e1 = -1 /\ e2 = -1 /\ k = 0 /\ np = 0 /\ species = <<>> /\ started = FALSE
  /\ l = 1 /\ parts = <<>>

TReset ==
  /\ IsEvent("Reset")
  /\ stage' = "idle" /\ parts' = <<>>
  /\ UNCHANGED <<mode, zneg, e0, ebb1, ebb2, imax, e1, e2, k, np, species, started>>

TEnter ==
  /\ IsEvent("Enter")
  /\ stage = "idle"
  /\ LET ev == Log[l] IN
     /\ mode' = ev.mode /\ zneg' = (ev.zneg = 1)
     /\ e0' = E0Of(ev.mode, ev.zneg = 1, ev.q, ev.edl, ev.ek)
     /\ started' = (ev.started = 1)
     /\ ebb1' = ev.ebb1 /\ ebb2' = ev.ebb2
     /\ imax' = E0Of(ev.mode, ev.zneg = 1, ev.q, ev.edl, ev.ek) \div KeV
  /\ stage' = "enter" /\ e1' = -1 /\ e2' = -1 /\ k' = 0 /\ np' = 0 /\ species' = <<>> /\ parts' = <<>>

\* the logged e0 and table size must be the ones the rules give (one unit of rounding; imax may sit on a bin edge)
TInitSpectrum ==
  /\ IsEvent("Init")
  /\ LET ev == Log[l] IN
     /\ ev.e0 >= e0 - 1 /\ ev.e0 <= e0 + 1
     /\ ev.imax >= (e0 - 1) \div KeV /\ ev.imax <= (e0 + 1) \div KeV
     /\ InitSpectrum(ebb1, ebb2)
     /\ ev.ebb1 >= ebb1' - 1 /\ ev.ebb1 <= ebb1' + 1 /\ ev.ebb2 >= ebb2' - 1 /\ ev.ebb2 <= ebb2' + 1
  /\ UNCHANGED parts

TResume ==
  /\ l <= Len(Log) /\ Log[l].e \in {"T1", "T4"}
  /\ Resume
  /\ UNCHANGED <<l, parts>>

TT1 ==
  /\ IsEvent("T1")
  /\ Trial1(Log[l].e1, Log[l].acc = 1)
  /\ Log[l].k >= k' - 1 /\ Log[l].k <= k' + 1     \* e1 within 0.01 eV of a bin edge may round either way
  /\ Log[l].k >= 1 /\ Log[l].k <= TableSize       \* ... but the bin the code really used is a bin of the table (spthe1[k-1])
  /\ UNCHANGED parts

\* the grid range of the majorant scan, as computed by the code, is the one the model prescribes
TS2 == IsEvent("S2") /\ Scan2(Log[l].ks, Log[l].kf) /\ UNCHANGED parts

TT2 == IsEvent("T2") /\ Trial2(Log[l].e2, Log[l].acc = 1) /\ UNCHANGED parts

TPair ==
  /\ IsEvent("Pair")
  /\ Pair
  /\ Log[l].e1 = e1 /\ Log[l].e2 >= e2 - 1 /\ Log[l].e2 <= e2 + 1
  /\ UNCHANGED parts

TT3 == IsEvent("T3") /\ Trial3(Log[l].acc = 1) /\ UNCHANGED parts
TT4 == IsEvent("T4") /\ Trial4(Log[l].acc = 1) /\ UNCHANGED parts

TPart ==
  /\ IsEvent("Part")
  /\ stage \in {"enter", "emit4", "emitkb"}
  /\ parts' = Append(parts, Log[l].c)
  /\ UNCHANGED vars

\* leaving the sampler: the particles it emitted itself are the ones the mode prescribes
TLeave ==
  /\ IsEvent("Leave")
  /\ \/ (stage = "enter" /\ mode \in FixedModes /\ EmitFixed /\ parts = species')
     \/ (stage = "emit4" /\ Emit4 /\ parts = species')
     \/ (stage = "emitkb" /\ EmitKb /\ parts = species')
     \/ (stage = "emit2" /\ Emit2 /\ parts = <<>>)
  /\ parts' = <<>>

TIdle ==
  /\ l <= Len(Log) /\ Log[l].e \in {"Reset", "Enter"}
  /\ stage = "done" /\ stage' = "idle"
  /\ UNCHANGED <<mode, zneg, e0, ebb1, ebb2, imax, e1, e2, k, np, species, started, l, parts>>

TNext == TReset \/ TEnter \/ TInitSpectrum \/ TResume \/ TT1 \/ TS2 \/ TT2 \/ TPair \/ TT3 \/ TT4 \/ TPart \/ TLeave \/ TIdle

TraceSpec == TInit /\ [][TNext]_tvars

Progress == TLCSet(1, IF TLCGet(1) > l THEN TLCGet(1) ELSE l)
Accepted == /\ PrintT(<<"furthest-line", TLCGet(1), "of", Len(Log)>>)
            /\ TLCGet(1) > Len(Log)
=============================================================================
