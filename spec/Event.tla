-------------------------------- MODULE Event --------------------------------
(* A generated event as seen through the public API (property C04), and its    *)
(* energy ledger for double-beta events (property C03).                        *)
(* The event is consumed particle by particle; every invariant is evaluated    *)
(* after every particle.  Energies in 0.01 eV.                                 *)
(*                                                                             *)
(*  Begin(cat, lab, t0, mode, q, ebb1, ebb2, steps, win)                        *)
(*  Particle(c, ke, fin, dt, tneg)   c in {"g","e-","e+","a","?"}; ke = -1 when *)
(*                                   not finite or absurd; dt = sign of the     *)
(*                                   time difference with the previous particle *)
(*  End(n)                                                                      *)
EXTENDS Integers, Sequences, FiniteSets, TLC

CONSTANTS
  KeMax,       \* bound on a kinetic energy (0.01 eV)
  Species,     \* species the model emits when explored on its own
  Energies     \* kinetic energies the model uses when explored on its own

VARIABLES phase, cat, hdr, n, vis, lepsum, bad, closed

vars == <<phase, cat, hdr, n, vis, lepsum, bad, closed>>

EMass == 51099906
KeV == 100000
ZeroNuModes == {1, 2, 3, 7, 9, 11, 17, 18, 20}
Allowed == {"g", "e-", "e+", "a"}

Init == phase = "idle" /\ cat = "none" /\ hdr = [lab |-> 1, t0 |-> 1, mode |-> 0, q |-> 0, ebb1 |-> 0, ebb2 |-> 0, steps |-> 0, win |-> 0, chain |-> 0]
        /\ n = 0 /\ vis = 0 /\ lepsum = 0 /\ bad = {} /\ closed = FALSE

Begin(c, h) ==
  /\ phase \in {"idle", "ended"}
  /\ phase' = "open" /\ cat' = c /\ hdr' = h /\ n' = 0 /\ vis' = 0 /\ lepsum' = 0 /\ closed' = FALSE
  /\ bad' = (IF h.lab = 1 THEN {} ELSE {"label"}) \cup (IF h.t0 = 1 THEN {} ELSE {"event-time"})

\* visible energy of a particle: kinetic energy, plus the annihilation quanta of a positron
Visible(c, ke) == ke + (IF c = "e+" THEN 2 * EMass ELSE 0)

Particle(c, ke, fin, dt, tneg) ==
  /\ phase = "open"
  /\ n' = n + 1
  \* the four alpha-chain entries (Bi214, Pb214, Po218, Rn222) append the decays of the short-lived daughters to the
  \* double-beta event: the ledger of the double-beta transition is closed by the first alpha
  /\ closed' = (closed \/ (hdr.chain = 1 /\ c = "a"))
  /\ vis' = vis + (IF ke >= 0 /\ ~closed' THEN Visible(c, ke) ELSE 0)
  /\ lepsum' = IF n < (IF hdr.mode = 10 THEN 1 ELSE 2) /\ ke >= 0 THEN lepsum + ke ELSE lepsum
  /\ bad' = bad \cup (IF c \in Allowed THEN {} ELSE {"species"})
                \cup (IF fin = 1 THEN {} ELSE {"not-finite"})
                \cup (IF ke >= 0 /\ ke <= KeMax THEN {} ELSE {"kinetic-energy"})
                \cup (IF dt >= 0 THEN {} ELSE {"time-order"})
                \cup (IF tneg = 0 THEN {} ELSE {"negative-time"})
                \cup (IF n + 1 <= 100 THEN {} ELSE {"more-than-100"})
  /\ UNCHANGED <<phase, cat, hdr>>

End(cnt) ==
  /\ phase = "open"
  /\ phase' = "ended"
  /\ bad' = bad \cup (IF cnt = n THEN {} ELSE {"count"}) \cup (IF n >= 1 THEN {} ELSE {"empty"})
  /\ UNCHANGED <<cat, hdr, n, vis, lepsum, closed>>

Next ==
  \/ \E c \in {"bkg", "dbd"} : Begin(c, hdr)
  \/ \E c \in Species, ke \in Energies : Particle(c, ke, 1, 0, 0)
  \/ End(n)

Spec == Init /\ [][Next]_vars

-----------------------------------------------------------------------------
\* C04: every event is well-formed
WellFormed == bad = {}

\* C03: tolerance = 3 keV + 1 keV per cascade step (tabulated level energy vs sum of the transition energies)
Tol == 3 * KeV + hdr.steps * KeV

\* the ledger never overshoots the Q value, at any point of the event
NeverAboveQ == (cat = "dbd" /\ phase \in {"open", "ended"}) => vis <= hdr.q + Tol

\* closure at the end of the event for the neutrinoless modes
Closure == (cat = "dbd" /\ phase = "ended" /\ hdr.mode \in ZeroNuModes) => (vis >= hdr.q - Tol /\ vis <= hdr.q + Tol)

\* the two leptons (the positron alone in mode 10) honour the energy-sum window
InWindow == (cat = "dbd" /\ phase = "ended" /\ hdr.win = 1 /\ hdr.mode \notin {9, 11, 12, 20}) =>
              (lepsum >= hdr.ebb1 - 2 /\ lepsum <= hdr.ebb2 + 2)
=============================================================================
