SPECIFICATION Spec
CONSTANTS
  Threads <- T3
  Calls = 2
  Mode = "Unsafe"
  Refill = FALSE
INVARIANTS TypeOK NoReadDuringFill
CHECK_DEADLOCK FALSE
