SPECIFICATION TSpec
CONSTANTS
  Threads <- TraceThreads
  Calls = 8
  Mode = "Once"
  Refill = FALSE
INVARIANTS TNoTwoFill TNoReadDuringFill TReadsFull
POSTCONDITION AllConsumed
CHECK_DEADLOCK FALSE
