SPECIFICATION Spec
CONSTANTS
  Formats <- MCFormats
  ArgvFormats <- MCArgvFormats
  Doc <- MCDoc
INVARIANTS TypeOK Effective PrefixKept OneEdit BoundSane
CHECK_DEADLOCK FALSE
