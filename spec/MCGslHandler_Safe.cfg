\* Safe, 3 threads x 2 quadratures: must satisfy everything
SPECIFICATION Spec
CONSTANTS
  Threads <- T3
  Quads = 2
  MaxTries = 2
  UseLock = TRUE
INVARIANTS TypeOK NoAbort HandlerRestored OneSaver SavedImpliesLock Silenced SavedIsInitial
CHECK_DEADLOCK FALSE
