------------------------------- MODULE GaCodec -------------------------------
(* The compact token language of the gA cumulative tables (property C14).     *)
(*                                                                             *)
(* One line of tab_ocdf.data holds one cumulative table c[1] <= ... <= c[n],   *)
(* written by save_tab_cdf() of resources/data/dbd_gA/tools/mkocdfdata.py and  *)
(* read back by bxdecay0::load_optimized_cdf_array().  Both are transcribed    *)
(* here, one action per processed value (encoder) / token (decoder).           *)
(*                                                                             *)
(*   token      meaning                                                        *)
(*   ^n         from now on every plain number is relative to 0.9..9 (n nines) *)
(*   !1         the value 1                                                    *)
(*   d.ddd      value = 0.9..9 + d.ddd * 10^-(n+1), ND significant digits      *)
(*                                                                             *)
(* Numbers.  TLC has 32-bit integers and no reals: a probability is the        *)
(* integer v = c * 10^S (S = 9 in the checked models, so 0 <= v <= 10^9), the  *)
(* number of leading nines of v is its "class".  A plain-number token is the   *)
(* pair (m, x) standing for the decimal m * 10^-x.  The real encoder keeps 7   *)
(* significant digits and knows classes 0..15; in this scale classes 0..9      *)
(* exist and ND is a model constant (rounding is exercised by values that      *)
(* carry more than ND digits after their nines).  Classes 10..15 are reached   *)
(* only by the floating-point conformance run, not by TLC.                     *)
(*                                                                             *)
(* Rounding: '{:.7g}'.format(p) rounds the binary value of p; on a decimal tie *)
(* either neighbour may come out, but the same one every time the same value   *)
(* is formatted: the direction is the variable tieUp, chosen when first needed *)
(* (one direction for all tie values: the checked models hold one such value). *)
EXTENDS Integers, Sequences, FiniteSets, TLC

CONSTANTS
  S,        \* decimal digits of the fixed-point scale (values are 0..10^S)
  ND,       \* significant digits kept by the encoder for a plain number
  Values,   \* the probabilities the model feeds to the encoder (subset of 0..10^S)
  MaxLen,   \* longest table
  Export    \* TRUE: print every finished behaviour whose table ends at 1 (for the conformance run)

VARIABLES
  inp,      \* values handed to the encoder so far
  toks,     \* the line written so far (sequence of tokens)
  ecur9,    \* encoder: current run of nines (-1 before the first value)
  pos,      \* decoder: next token to read
  dcur9,    \* decoder: current run of nines (-1 before the first '^')
  out,      \* decoder: table decoded so far
  phase,    \* "enc" | "dec" | "done"
  tieUp     \* "unset" | "up" | "down" : how the formatter resolves a decimal tie

vars == <<inp, toks, ecur9, pos, dcur9, out, phase, tieUp>>

-----------------------------------------------------------------------------
Pow10[n \in 0..S] == IF n = 0 THEN 1 ELSE 10 * Pow10[n - 1]
ONE == Pow10[S]

\* 0.9..9 with k nines (k = 0 : 0)
Bias(k) == ONE - Pow10[S - k]

\* the encoder's if / elif chain "cprob < 0.9 : 0, cprob < 0.99 : 1, ..." (values below 1 only)
Class(v) ==
  LET F[k \in 0..S] == IF k = S THEN S ELSE IF v < Bias(k + 1) THEN k ELSE F[k + 1]
  IN  F[0]

Digits(q) ==
  LET F[k \in 0..S] == IF k = S THEN S ELSE IF q < Pow10[k] THEN k ELSE F[k + 1]
  IN  F[0]          \* number of decimal digits of q (0 for q = 0)

\* weight of the last digit the encoder keeps of q (1: q is written exactly)
Unit(q) == IF Digits(q) <= ND THEN 1 ELSE Pow10[Digits(q) - ND]

\* q rounded to ND significant digits: the set of admissible results (both neighbours on a decimal tie)
RoundSig(q) ==
  LET u   == Unit(q)
      lo  == (q \div u) * u
      rem == q - lo
  IN  IF rem = 0 THEN {q}
      ELSE IF 2 * rem < u THEN {lo}
      ELSE IF 2 * rem > u THEN {lo + u}
      ELSE {lo, lo + u}
IsTie(q) == Cardinality(RoundSig(q)) = 2
RoundDown(q) == (q \div Unit(q)) * Unit(q)

Run(n)    == [t |-> "run", n |-> n, m |-> 0, x |-> 0]
One       == [t |-> "one", n |-> 0, m |-> 0, x |-> 0]
Dig(m, x) == [t |-> "dig", n |-> 0, m |-> m, x |-> x]

Last(s) == s[Len(s)]

-----------------------------------------------------------------------------
Init ==
  /\ inp = <<>> /\ toks = <<>> /\ ecur9 = -1
  /\ pos = 1 /\ dcur9 = -1 /\ out = <<>>
  /\ phase = "enc" /\ tieUp = "unset"

(* save_tab_cdf, body of the while loop for one value v.                       *)
(* Well-formed input only: the table is non-decreasing.                        *)
EncTok(v) ==
  /\ phase = "enc"
  /\ Len(inp) < MaxLen
  /\ (inp # <<>> => v >= Last(inp))
  /\ LET one   == v >= ONE                 \* the final 'else' of the chain
         this9 == IF one THEN 0 ELSE Class(v)
         cur   == IF this9 > ecur9 THEN this9 ELSE ecur9
         pre   == IF this9 > ecur9 THEN <<Run(cur)>> ELSE <<>>
     IN  /\ ecur9' = cur
         /\ IF one
              THEN toks' = toks \o pre \o <<One>> /\ tieUp' = tieUp
              ELSE LET q == v - Bias(cur)                   \* p = (cprob - bias9) * 10^(cur9+1), '{:.NDg}'
                   IN  IF IsTie(q)
                         THEN \E b \in (IF tieUp = "unset" THEN {"up", "down"} ELSE {tieUp}) :
                                /\ tieUp' = b
                                /\ toks' = toks \o pre \o <<Dig(IF b = "up" THEN RoundDown(q) + Unit(q) ELSE RoundDown(q), S - cur - 1)>>
                         ELSE /\ tieUp' = tieUp
                              /\ \E m \in RoundSig(q) : toks' = toks \o pre \o <<Dig(m, S - cur - 1)>>
  /\ inp' = Append(inp, v)
  /\ UNCHANGED <<pos, dcur9, out, phase>>

EndLine ==
  /\ phase = "enc" /\ inp # <<>>
  /\ phase' = "dec"
  /\ UNCHANGED <<inp, toks, ecur9, pos, dcur9, out, tieUp>>

\* m * 10^e, e possibly negative (never negative when decoder and encoder agree)
Scale(m, e) == IF e >= 0 THEN m * Pow10[e] ELSE m \div Pow10[-e]
DBias(k) == IF k < 0 THEN 0 ELSE Bias(k)      \* 'bias9 = 0.0' until the first '^'

(* load_optimized_cdf_array, body of the while loop for one token.             *)
DecTok ==
  /\ phase = "dec" /\ pos <= Len(toks)
  /\ LET tk == toks[pos]
     IN  CASE tk.t = "run" -> /\ dcur9' = IF tk.n > dcur9 THEN tk.n ELSE dcur9
                              /\ out' = out
           [] tk.t = "one" -> /\ out' = Append(out, ONE)
                              /\ dcur9' = dcur9
           [] tk.t = "dig" -> \* cprob = bias9 + digits * 10^-(cur9 + 1)
                              /\ out' = Append(out, DBias(dcur9) + Scale(tk.m, S - (dcur9 + 1) - tk.x))
                              /\ dcur9' = dcur9
  /\ pos' = pos + 1
  /\ UNCHANGED <<inp, toks, ecur9, phase, tieUp>>

EndDecode ==
  /\ phase = "dec" /\ pos > Len(toks)
  /\ phase' = "done"
  /\ UNCHANGED <<inp, toks, ecur9, pos, dcur9, out, tieUp>>

Next == (\E v \in Values : EncTok(v)) \/ EndLine \/ DecTok \/ EndDecode

Spec == Init /\ [][Next]_vars

-----------------------------------------------------------------------------
Done == phase = "done"
Abs(a) == IF a < 0 THEN -a ELSE a

\* the remainder the encoder formats for value v (v < 1)
Rem(v) == v - Bias(Class(v))

(* Decode(Encode(c)) = c to the encoding precision: exactly when the digits    *)
(* after the nines fit in ND significant digits, else within half a unit of    *)
(* the last kept digit.                                                        *)
RoundTrip ==
  Done => /\ Len(out) = Len(inp)
          /\ \A i \in 1..Len(inp) :
               IF inp[i] >= ONE THEN out[i] = ONE
               ELSE 2 * Abs(out[i] - inp[i]) <= (IF Digits(Rem(inp[i])) <= ND THEN 0 ELSE Unit(Rem(inp[i])))

NonDecreasing == Done => \A i \in 1..Len(out) : \A j \in i..Len(out) : out[i] <= out[j]
InUnitInterval == \A i \in 1..Len(out) : 0 <= out[i] /\ out[i] <= ONE
EndsAtOne == (Done /\ Last(inp) = ONE) => Last(out) = ONE

\* m * 10^-x <= 9  (x = -1 only for the last class of the scale, where m = 0)
LeNine(m, x) == IF x >= 0 THEN m <= 9 * Pow10[x] ELSE m * Pow10[-x] <= 9

\* the line itself: runs strictly increasing, every plain number in [0, 9], decoder ends in step with the encoder
WellFormedLine ==
  /\ \A i \in 1..Len(toks) : toks[i].t = "dig" => (0 <= toks[i].m /\ LeNine(toks[i].m, toks[i].x))
  /\ \A i \in 1..Len(toks) : \A j \in (i + 1)..Len(toks) :
        (toks[i].t = "run" /\ toks[j].t = "run") => toks[i].n < toks[j].n
  /\ Len(toks) >= 1 => toks[1].t = "run"
  /\ Done => dcur9 = ecur9

TypeOK ==
  /\ phase \in {"enc", "dec", "done"}
  /\ Len(inp) <= MaxLen /\ Len(out) <= Len(inp)
  /\ ecur9 \in -1..S /\ dcur9 \in -1..S
  /\ pos \in 1..(Len(toks) + 1)
  /\ tieUp \in {"unset", "up", "down"}

\* export for the conformance run (always TRUE)
TokTuple(tk) == IF tk.t = "run" THEN <<0, tk.n, 0>> ELSE IF tk.t = "one" THEN <<1, 0, 0>> ELSE <<2, tk.m, tk.x>>
ExportDone ==
  (Export /\ Done /\ Last(inp) = ONE)
     => PrintT(ToString(<<"CASE", inp, [i \in 1..Len(toks) |-> TokTuple(toks[i])], out>>))
=============================================================================
