SPECIFICATION Spec
CONSTANTS
  Threads <- T3
  Calls = 2
  Mode = "Mutex"
  Refill = TRUE
INVARIANTS TypeOK NoTwoFill NoReadDuringFill ReadsFull
CHECK_DEADLOCK FALSE
