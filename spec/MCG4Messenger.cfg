SPECIFICATION Spec
CONSTANTS
  Nucs <- MCNucs
INVARIANTS TypeOK RangesHold BackgroundIsClean
CHECK_DEADLOCK FALSE
