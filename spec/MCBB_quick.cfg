SPECIFICATION Spec
CONSTANTS
  Modes <- MCModes
  E0s <- MCE0sQuick
  Grid <- MCGridQuick
  Slack = 0
INVARIANTS TypeOK IndexInTable WindowClamped PairEnergies Emission
CHECK_DEADLOCK FALSE
