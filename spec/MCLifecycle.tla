---------------------------- MODULE MCLifecycle ----------------------------
(* Model constants for Lifecycle (TLC's cfg syntax has no "" and no negative literals). *)
EXTENDS Lifecycle
MCIsotopes == {"", "Co60", "Mo100", "junk"}
MCLevels   == {-1, 0, 1, 9}
MCModes    == {0, 1, 4, 7, 20, 21}
MCModesGa  == MCModes \cup {22}
=============================================================================
