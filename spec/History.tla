------------------------------- MODULE History -------------------------------
(* History independence (property C07): the event a generator yields depends   *)
(* on its configuration and on the deviates it is served, on nothing else.     *)
(*                                                                             *)
(* The model keeps, for a few generator slots and event objects, exactly what  *)
(* the statement says must NOT matter: how many shots were made before, with    *)
(* which other configuration the slot was used earlier, what the event object   *)
(* held before, what other instances did in between.  The outcome of a shot is  *)
(* by definition Canon(configuration, stream): the replay (harness/             *)
(* history_replay.cc) executes every behaviour on real objects and compares     *)
(* each shot, bit for bit, with the canonical event computed by a fresh         *)
(* instance, a fresh event object and the same stream.                          *)
EXTENDS Integers, Sequences, FiniteSets, TLC

CONSTANTS
  Gens,         \* generator slots
  Evs,          \* event objects
  Streams,      \* deviate streams (seeds)
  Cfgs          \* configurations

VARIABLES gen, ev, out,
          amb     \* the process-wide registers the application has set up (C and C++ locale, floating-point rounding mode and
                  \* exception mask, GSL error handler, umask, working directory): another carrier of history from one call to
                  \* the next and from one instance to another.  No library call may leave them changed (it may change and
                  \* restore them inside the call).  The replay sets every register to a value of its own and compares after
                  \* each action (violation key ambient:<register>).

vars == <<gen, ev, out, amb>>
view == <<gen, ev>>     \* the outcome is an output, not part of the state the history is made of

\* Post-generation operations are part of the configuration.  The replay runs every behaviour under three OpModes:
\*   "none"   no operation;
\*   "own"    every generator is given an operation object of its own;
\*   "shared" the caller keeps ONE operation object and registers it with every generator he creates or re-initialises
\*            (operations are held by shared pointer): OpUsers are then all live generators, and whatever Destroy or
\*            ResetReinit of one of them does to the object is seen by the others.
\*   "pair"   every generator is given TWO operation objects of its own whose order matters (registration order = application order)
\*   "strict" one operation that refuses events lacking its target (error_on_missing_particle): the outcome of a shot may be a
\*            refusal (an exception the caller catches) - it is canonical like any other outcome, and so is the shot after it
OpModes == {"none", "own", "shared", "pair", "strict"}
OpUsers(mode) == IF mode = "shared" THEN {g \in Gens : gen[g].st = "init"} ELSE {}

Absent == [st |-> "absent", cfg |-> "none", prev |-> "none", shots |-> "none"]
\* shots: "none" (never shot), "few", "many" - how much the instance was used since its last initialisation
\* prev : whether the slot was initialised before its last reset with the same or with another configuration ("none" if never)

EvStates == {"fresh", "used", "prefilled", "tight"}
\* tight: the object was replaced by a copy of itself - its storage holds exactly its content, the next append has to grow it

Init ==
  /\ gen = [g \in Gens |-> Absent]
  /\ ev = [e \in Evs |-> "fresh"]
  /\ out = [cfg |-> "none", stream |-> "none"]
  /\ amb = "application"

Create(g, c) ==
  /\ amb' = amb
  /\ gen[g].st = "absent"
  /\ gen' = [gen EXCEPT ![g] = [st |-> "init", cfg |-> c, prev |-> "none", shots |-> "none"]]
  /\ UNCHANGED <<ev, out>>

\* shoot generator g into event object e with stream s: the outcome is the canonical event of (cfg, s)
Shoot(g, e, s) ==
  /\ amb' = amb
  /\ gen[g].st = "init"
  /\ out' = [cfg |-> gen[g].cfg, stream |-> s]
  /\ gen' = [gen EXCEPT ![g].shots = IF @ = "many" THEN "many" ELSE "few"]
  /\ ev' = [ev EXCEPT ![e] = "used"]
 

\* a thousand shots in a row ("first shot or millionth")
ShootMany(g, e) ==
  /\ amb' = amb
  /\ gen[g].st = "init" /\ gen[g].shots # "many"
  /\ gen' = [gen EXCEPT ![g].shots = "many"]
  /\ ev' = [ev EXCEPT ![e] = "used"]
  /\ UNCHANGED out

\* reset and initialise again, with the same or with another configuration
ResetReinit(g, c) ==
  /\ amb' = amb
  /\ gen[g].st = "init"
  /\ gen' = [gen EXCEPT ![g] = [st |-> "init", cfg |-> c, prev |-> (IF c = gen[g].cfg THEN "same" ELSE "other"), shots |-> "none"]]
  /\ UNCHANGED <<ev, out>>

Destroy(g) ==
  /\ amb' = amb
  /\ gen[g].st = "init"
  /\ gen' = [gen EXCEPT ![g] = Absent]
  /\ UNCHANGED <<ev, out>>

EventReset(e) ==
  /\ amb' = amb
  /\ ev[e] # "fresh"
  /\ ev' = [ev EXCEPT ![e] = "fresh"]
  /\ UNCHANGED <<gen, out>>

\* the caller leaves particles of his own in the event object
EventPrefill(e) ==
  /\ amb' = amb
  /\ ev[e] # "prefilled"
  /\ ev' = [ev EXCEPT ![e] = "prefilled"]
  /\ UNCHANGED <<gen, out>>

\* the caller copies the event object (and goes on with the copy)
EventCopy(e) ==
  /\ amb' = amb
  /\ ev[e] \in {"used", "prefilled"}
  /\ ev' = [ev EXCEPT ![e] = "tight"]
  /\ UNCHANGED <<gen, out>>

Next ==
  \/ \E g \in Gens, c \in Cfgs : Create(g, c) \/ ResetReinit(g, c)
  \/ \E g \in Gens, e \in Evs, s \in Streams : Shoot(g, e, s)
  \/ \E g \in Gens, e \in Evs : ShootMany(g, e)
  \/ \E g \in Gens : Destroy(g)
  \/ \E e \in Evs : EventReset(e) \/ EventPrefill(e) \/ EventCopy(e)

Spec == Init /\ [][Next]_vars

-----------------------------------------------------------------------------
TypeOK ==
  /\ \A g \in Gens : gen[g].st \in {"absent", "init"}
  /\ \A e \in Evs : ev[e] \in EvStates
  /\ amb = "application"

\* the statement: the outcome names a configuration and a stream, nothing of the history
OutcomeIsCanonical ==
  [][\A g \in Gens, e \in Evs, s \in Streams : Shoot(g, e, s) => out' = [cfg |-> gen[g].cfg, stream |-> s]]_vars

\* only initialised generators produce outcomes
OutcomeFromLiveGenerator == out.cfg # "none" => out.cfg \in Cfgs
=============================================================================
