SPECIFICATION TSpec
CONSTANTS
  Formats <- MCFormats
  ArgvFormats <- MCArgvFormats
  Doc <- MCDoc
POSTCONDITION TraceAccepted
CHECK_DEADLOCK FALSE
