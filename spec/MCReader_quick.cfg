\* Reader.tla, quick tier: <= 3 files x <= 2 events, start <= 5, max <= 3, <= 6 calls
SPECIFICATION Spec
CONSTANTS
  MaxFiles = 3
  MaxPerFile = 2
  MaxStart = 5
  MaxMax = 3
  MaxCalls = 6
INVARIANTS TypeOK DeliveredIsWindowPrefix WindowIsSlice ExactlyTheWindow AnnouncedLoads EmptyWindowSilent TermSilent
PROPERTIES AnnouncedLoadsStep LoadedCounts TermAbsorbing TermStep
CHECK_DEADLOCK FALSE
