---------------------------- MODULE TraceDriver ----------------------------
(* Trace validation for Driver: is each recorded execution of the real bxdecay0-run (system calls observed   *)
(* with strace or with the LD_PRELOAD shim, final files read back from disk) a behaviour of Driver?          *)
(* One ndjson line per Driver action; executions are concatenated, each starts with a Reset line carrying    *)
(* the plan (computed by CmdLine for the command line that was run) and which files of an earlier complete  *)
(* run are in place on the base name.  Lines marked "inferred" are internal   *)
(* actions with no system call of their own (Parse, InitGen, Header, WriteEvent, WriteStatus); the harness   *)
(* places them immediately before the first write that carries their output.  "Disk" lines compare the       *)
(* durable state of the model with what is found on disk.                                                    *)
EXTENDS Driver, Json, IOUtils

\* read once (a definition would be re-evaluated, i.e. the file parsed again, at every reference)
ASSUME TLCSet(7, ndJsonDeserialize(IOEnv.TRACE))
TraceLog == TLCGet(7)

VARIABLE l
tvars == <<vars, l>>

PlanOf(r) == [verdict |-> r.verdict, n |-> r.n, req |-> Range(r.req), opt |-> Range(r.opt)]
NoPlans == {}      \* Plans is not used here: each execution's plan comes from its Reset line

Ev == TraceLog[l]
Is(e) == l <= Len(TraceLog) /\ TraceLog[l].e = e
Adv == l' = l + 1

TInit == /\ l = 2 /\ TraceLog[1].e = "Reset"
         /\ plan = PlanOf(TraceLog[1]) /\ Fresh /\ old = Range(TraceLog[1].old)

\* next execution: only after the previous one has ended
TReset ==
  /\ Is("Reset") /\ phase \notin Alive
  /\ plan' = PlanOf(Ev) /\ phase' = "start" /\ n' = 0
  /\ tw' = <<>> /\ tdur' = 0 /\ tornT' = FALSE /\ openT' = FALSE
  /\ cw' = <<>> /\ cdur' = 0 /\ tornC' = FALSE /\ openC' = FALSE
  /\ outcome' = [rc |-> -1, msg |-> FALSE]
  /\ old' = Range(Ev.old)
  /\ Adv

\* what is on disk is what the model says is durable
TDisk ==
  /\ Is("Disk")
  /\ D0t = Ev.t /\ tornT = Ev.tornT
  /\ D0c = Ev.c /\ tornC = Ev.tornC
  /\ old = Range(Ev.old)            \* which files still hold the earlier run's bytes
  /\ UNCHANGED vars /\ Adv

TNext ==
  \/ TReset \/ TDisk
  \/ Is("Parse") /\ Parse /\ Adv
  \/ Is("Usage") /\ Usage /\ Adv
  \/ Is("Refuse") /\ Refuse(Ev.rc, Ev.msg) /\ Adv
  \/ Is("OpenFile") /\ OpenFile(Ev.f) /\ Adv
  \/ Is("Cleanup") /\ Cleanup(Ev.f) /\ Adv
  \/ Is("InitGen") /\ InitGen /\ Adv
  \/ Is("Header") /\ Header(Ev.k) /\ Adv
  \/ Is("WriteEvent") /\ n = Ev.id /\ WriteEvent /\ Adv     \* the id found in the record is the next one
  \/ Is("FlushT") /\ FlushT(Ev.k) /\ Adv
  \/ Is("TearT") /\ TearT /\ Adv
  \/ Is("FlushC") /\ FlushC(Ev.k) /\ Adv
  \/ Is("TearC") /\ TearC /\ Adv
  \/ Is("CloseEvents") /\ CloseEvents /\ Adv
  \/ Is("WriteStatus") /\ WriteStatus /\ Adv
  \/ Is("CloseInfo") /\ CloseInfo /\ Adv
  \/ Is("Exit") /\ Ev.rc = 0 /\ Exit /\ Adv
  \/ Is("Crash") /\ Crash /\ Adv

TSpec == TInit /\ [][TNext]_tvars

\* every line was matched: the longest behaviour consumed the whole log
Accepted == TLCGet("stats").diameter = Len(TraceLog)
=============================================================================
