SPECIFICATION Spec
CONSTANTS
  Configs <- MCConfigs
  Vertexers <- MCVertexers
  MaxShots = 3
INVARIANTS TypeOK ServedOnlyIfCoreAccepts LiveOnlyIfCoreAccepts RefusedHandsNothing
PROPERTIES ChangeIsEvaluated NoFalseRefusal ShotsAccounting InOrder
CHECK_DEADLOCK FALSE
