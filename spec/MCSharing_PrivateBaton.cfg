SPECIFICATION Spec
CONSTANTS
  Threads <- T3
  Segments = 3
  Decays = 2
  Private = TRUE
  Schedule = "Baton"
INVARIANTS TypeOK Independent Complete
CHECK_DEADLOCK FALSE
