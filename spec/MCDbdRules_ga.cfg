SPECIFICATION Spec
CONSTANTS
  Isos <- MCIsos
  Levels <- MCLevels
  ModeIds <- MCModeIds
  GaData <- MCGaMounted
INVARIANTS FourBetaOnlyThree GaOnlyFourGroundStates WindowOnlyOnWindowModes UnknownRefused LibraryWithinReference PositiveEnergy EveryIsotopeHasAMode CataloguesAgree ModeLabelsBijective Export
CHECK_DEADLOCK FALSE
