SPECIFICATION TraceSpec
CONSTANTS Names <- MCNames
INVARIANT ObservedCapacity
CONSTRAINT Progress
POSTCONDITION Accepted
CHECK_DEADLOCK FALSE
