SPECIFICATION Spec
CONSTANTS
  Gens <- MCGens
  Evs <- MCEvs
  Streams <- MCStreams
  Cfgs <- MCCfgsMid
VIEW view
INVARIANTS TypeOK OutcomeFromLiveGenerator
PROPERTY OutcomeIsCanonical
CHECK_DEADLOCK FALSE
