----------------------------- MODULE GslHandler -----------------------------
(* The process-wide GSL error handler as the quadrature wrapper of bxdecay0    *)
(* (decay0_gauss) uses it (property C12).                                       *)
(*                                                                             *)
(* GSL keeps ONE error handler per process.  Its default ("abort") prints      *)
(* "Default GSL error handler invoked" and calls abort().  The wrapper, around  *)
(* each quadrature,                                                             *)
(*     saved := gsl_set_error_handler_off()      -- Save    (handler := "off") *)
(*     loop: status := QNG(...)                  -- Integrate(ok | etol)       *)
(*           ok -> leave; GSL_ETOL -> relax eps, retry, at most MaxTries calls *)
(*     gsl_set_error_handler(saved)              -- Restore                    *)
(* One action per code step; a thread runs Quads quadratures one after the     *)
(* other.  Threads are independent generator instances: they share nothing but *)
(* `handler`.                                                                   *)
(*                                                                             *)
(* UseLock = FALSE ("Unsafe") : the steps of different threads interleave      *)
(*                              freely (an unprotected wrapper).               *)
(* UseLock = TRUE  ("Safe")   : Save .. Restore is a critical section          *)
(*                              (Acquire before Save, Release after Restore):  *)
(*                              what the property needs from this mechanism.   *)
(*                                                                             *)
(* A QNG call that misses its tolerance hands GSL_ETOL to the handler that is  *)
(* installed AT THAT MOMENT; if that is "abort" the process dies (`aborted`,   *)
(* terminal).                                                                   *)
EXTENDS Naturals, FiniteSets

CONSTANTS
  Threads,    \* thread identifiers (positive integers)
  Quads,      \* quadratures per thread
  MaxTries,   \* QNG calls per quadrature at most (2 in the wrapper: one retry)
  UseLock     \* FALSE = Unsafe, TRUE = Safe

VARIABLES
  handler,    \* the process-wide handler: "abort" | "off"
  saved,      \* per thread: what Save returned and Restore will re-install ("none" outside Save..Restore)
  pc,         \* per thread: "idle" | "save" | "integ" | "restore" | "release"
  left,       \* per thread: quadratures still to do
  tries,      \* per thread: QNG calls made in the current quadrature
  lock,       \* Free (0) or the thread inside the critical section (stays Free when ~UseLock)
  aborted     \* the aborting handler was invoked (the process is dead)

vars == <<handler, saved, pc, left, tries, lock, aborted>>

InitHandler == "abort"
Free == 0
Results == {"ok", "etol"}

TypeOK ==
  /\ handler \in {"abort", "off"}
  /\ saved \in [Threads -> {"none", "abort", "off"}]
  /\ pc \in [Threads -> {"idle", "save", "integ", "restore", "release"}]
  /\ left \in [Threads -> 0..Quads]
  /\ tries \in [Threads -> 0..MaxTries]
  /\ lock \in {Free} \cup Threads
  /\ aborted \in BOOLEAN

Init ==
  /\ handler = InitHandler
  /\ saved = [t \in Threads |-> "none"]
  /\ pc = [t \in Threads |-> "idle"]
  /\ left = [t \in Threads |-> Quads]
  /\ tries = [t \in Threads |-> 0]
  /\ lock = Free
  /\ aborted = FALSE

\* a dead process takes no step
Alive == ~aborted

\* enter the wrapper (and the critical section when there is one)
Acquire(t) ==
  /\ Alive
  /\ pc[t] = "idle" /\ left[t] > 0
  /\ IF UseLock THEN lock = Free /\ lock' = t ELSE lock' = lock
  /\ pc' = [pc EXCEPT ![t] = "save"]
  /\ UNCHANGED <<handler, saved, left, tries, aborted>>

\* gsl_set_error_handler_off(): returns the previous handler, installs "off"
Save(t) ==
  /\ Alive
  /\ pc[t] = "save"
  /\ saved' = [saved EXCEPT ![t] = handler]
  /\ handler' = "off"
  /\ tries' = [tries EXCEPT ![t] = 0]
  /\ pc' = [pc EXCEPT ![t] = "integ"]
  /\ UNCHANGED <<left, lock, aborted>>

\* one gsl_integration_qng call; r = "etol": the tolerance was missed and the CURRENT handler is invoked
Integrate(t, r) ==
  /\ Alive
  /\ pc[t] = "integ"
  /\ aborted' = (aborted \/ (r = "etol" /\ handler = "abort"))
  /\ tries' = [tries EXCEPT ![t] = @ + 1]
  /\ pc' = [pc EXCEPT ![t] = IF r = "ok" \/ tries[t] + 1 >= MaxTries THEN "restore" ELSE "integ"]
  /\ UNCHANGED <<handler, saved, left, lock>>

\* gsl_set_error_handler(saved)
Restore(t) ==
  /\ Alive
  /\ pc[t] = "restore"
  /\ handler' = saved[t]
  /\ saved' = [saved EXCEPT ![t] = "none"]
  /\ IF UseLock
       THEN pc' = [pc EXCEPT ![t] = "release"] /\ left' = left
       ELSE pc' = [pc EXCEPT ![t] = "idle"] /\ left' = [left EXCEPT ![t] = @ - 1]
  /\ UNCHANGED <<tries, lock, aborted>>

\* leave the critical section (Safe only)
Release(t) ==
  /\ Alive
  /\ pc[t] = "release"
  /\ lock' = Free
  /\ pc' = [pc EXCEPT ![t] = "idle"]
  /\ left' = [left EXCEPT ![t] = @ - 1]
  /\ UNCHANGED <<handler, saved, tries, aborted>>

Next ==
  \/ \E t \in Threads : Acquire(t)
  \/ \E t \in Threads : Save(t)
  \/ \E t \in Threads, r \in Results : Integrate(t, r)
  \/ \E t \in Threads : Restore(t)
  \/ \E t \in Threads : Release(t)

Spec == Init /\ [][Next]_vars

-----------------------------------------------------------------------------
AllDone == \A t \in Threads : left[t] = 0 /\ pc[t] = "idle"

(* The two statements of the property on this mechanism. *)
NoAbort == ~aborted
HandlerRestored == AllDone => handler = InitHandler

(* How Safe achieves them (checked on Safe; the first is what the trace validation observes). *)
OneSaver == Cardinality({t \in Threads : saved[t] # "none"}) <= 1
SavedImpliesLock == UseLock => \A t \in Threads : (saved[t] # "none" \/ pc[t] \in {"save", "integ", "restore", "release"}) => lock = t
Silenced == \A t \in Threads : pc[t] \in {"integ", "restore"} => handler = "off"
SavedIsInitial == \A t \in Threads : saved[t] \in {"none", InitHandler}
=============================================================================
