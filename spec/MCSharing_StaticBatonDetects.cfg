SPECIFICATION Spec
CONSTANTS
  Threads <- T2
  Segments = 2
  Decays = 2
  Private = FALSE
  Schedule = "Baton"
INVARIANTS TypeOK Independent Complete
CHECK_DEADLOCK FALSE
