SPECIFICATION Spec
CONSTANTS
  Nucs <- MCNucs
INVARIANTS TypeOK DbdHasNoStaleWindow
CHECK_DEADLOCK FALSE
