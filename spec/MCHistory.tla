------------------------------ MODULE MCHistory ------------------------------
EXTENDS History
MCGens == {"g1", "g2"}
MCEvs == {"e1", "e2"}
MCEvsQuick == {"e1"}
MCStreams == {"s1", "s2"}
\* configurations with millisecond initialisation; Co60 and Bi207 have the correlated-gamma blocks, the three
\* double-beta ones end in the Ru100 / Se76 / Sm150 cascades with angular correlation, Zr96 mode 20 is the 4-electron mode
MCCfgs == {"Co60", "Bi207", "Mo100.2.1", "Ge76.2.1", "Nd150.3.7", "Zr96.0.20"}
MCCfgsSmall == {"Co60", "Mo100.2.1", "Zr96.0.20"}
\* one nuclide, level and mode (2nubb of Nd148 to the 1921 keV level: 7 keV are left, the tables have 7 bins) under three energy-sum windows: whatever an
\* initialisation keeps for the next one is keyed on everything the tables depend on, the window included
MCCfgsWindow == {"Nd148.5.4", "Nd148.5.4@0.002:0.005", "Nd148.5.4@0.003:0.0065"}
\* the three nuclides of the quadruple-beta mode: one mode, three different energy releases
MCCfgsFour == {"Zr96.0.20", "Xe136.0.20", "Nd150.0.20"}
\* the modes whose second lepton is drawn against a majorant scanned per event (5, 6, 8, 13-16): what one event leaves in the
\* per-event table must not reach the next
MCCfgsScan == {"Mo100.0.5", "Mo100.0.13", "Mo100.1.8"}
MCCfgsMid == {"Co60", "Bi207", "Mo100.2.1", "Ge76.2.1", "Nd150.3.7"}
=============================================================================
