------------------------------ MODULE MCHistory ------------------------------
EXTENDS History
MCGens == {"g1", "g2"}
MCEvs == {"e1", "e2"}
MCEvsQuick == {"e1"}
MCStreams == {"s1", "s2"}
\* configurations with millisecond initialisation; Co60 and Bi207 have the correlated-gamma blocks, the three
\* double-beta ones end in the Ru100 / Se76 / Sm150 cascades with angular correlation, Zr96 mode 20 is the 4-electron mode
MCCfgs == {"Co60", "Bi207", "Mo100.2.1", "Ge76.2.1", "Nd150.3.7", "Zr96.0.20"}
MCCfgsSmall == {"Co60", "Mo100.2.1", "Zr96.0.20"}
MCCfgsMid == {"Co60", "Bi207", "Mo100.2.1", "Ge76.2.1", "Nd150.3.7"}
=============================================================================
