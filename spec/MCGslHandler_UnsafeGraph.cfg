\* Unsafe, 2 threads x 2 quadratures, no invariant: the complete graph is exported; its paths are the schedules
\* forced on the real wrapper
SPECIFICATION Spec
CONSTANTS
  Threads <- T2
  Quads = 2
  MaxTries = 2
  UseLock = FALSE
INVARIANTS TypeOK
CHECK_DEADLOCK FALSE
