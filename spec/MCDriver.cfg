SPECIFICATION Spec
CONSTANTS
  Plans <- MCPlans
  Parts = 2
INVARIANTS PlanOK TypeOK StatusOnlyIfComplete AlwaysPrefix RefusedNoRecord RefusalDetectable MustRefuse HeaderReflects DoneComplete
PROPERTIES Monotone
CHECK_DEADLOCK FALSE
