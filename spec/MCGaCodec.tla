----------------------------- MODULE MCGaCodec -----------------------------
(* Model constants for GaCodec.  Values are probabilities times 10^9; they    *)
(* cross every run-of-nines boundary representable in this scale (0.9, 0.99,  *)
(* ... 0.999999999, 1), sit on, just below and inside each class, and include *)
(* values with more than 7 digits after their nines (rounding down, up, tie,  *)
(* carry to the class boundary).                                              *)
EXTENDS GaCodec

ValuesQuick == {
  0, 100000000, 123456789, 890000000, 899999999,
  900000000, 950000000, 989999999,
  990000000, 995000000,
  999000000, 999500000,
  999900000,
  999990000, 999995000,
  999999000,
  999999900, 999999950,
  999999990, 999999995,
  999999999,
  1000000000 }

ValuesThorough == ValuesQuick \cup {
  500000000, 123456712, 123456750,
  900000001, 998999999, 999950000, 999990001, 999999500, 999999998 }
=============================================================================
