SPECIFICATION Spec
CONSTANTS
  GaData = FALSE
  LevelVals <- MCLevelsT
  ModeVals <- MCModesT
  CountVals <- MCCounts
  Bases <- MCBases
  MaxDev = 2
  Extra <- MCExtra
INVARIANTS TypeOK RunIsSupported ReasonIffRefused KeysDisjoint
  SpellingIrrelevant
CHECK_DEADLOCK FALSE
