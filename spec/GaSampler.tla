------------------------------ MODULE GaSampler ------------------------------
(* Cell selection of the gA inverse-transform sampler (property C14):          *)
(* dbd_gA::_shoot_e1_e2_inverse_transform_method_.                             *)
(*                                                                             *)
(* A dataset with n energy samples E[1] < ... < E[n] holds                     *)
(*   tab1     : the cumulative table of the first electron, n entries;         *)
(*   rows[i]  : for each i the conditional cumulative table of the second      *)
(*              electron, n - i + 1 entries (the tabulated domain is the       *)
(*              triangle E1 + E2 <= E[1] + E[n] <= Qbb).                       *)
(* Tables are non-decreasing and end at 1.  Only the order of probabilities    *)
(* matters for the selection, so a probability is a rank 0..M (M stands for 1, *)
(* 0 for 0) and a deviate is an integer r in 0..2M-1 compared with 2*c: even   *)
(* deviates sit on a table value, odd ones strictly between two ranks, 0 is    *)
(* the deviate 0 that the i_random contract [0,1) allows.                      *)
(*                                                                             *)
(* Cell k of a table is the energy interval [E[k-1], E[k]] with E[0] = 0: the  *)
(* sampler must pick the first k with r <= c[k] (generalised inverse of the    *)
(* cumulative distribution), the second table being the row of the first pick. *)
EXTENDS Integers, Sequences, FiniteSets, TLC

CONSTANTS
  M,        \* rank of probability 1
  N,        \* largest number of energy samples
  Export    \* TRUE: print the selection function for the conformance run

VARIABLES n, tab1, r1, i1, row, r2, j2, phase

vars == <<n, tab1, r1, i1, row, r2, j2, phase>>

Devs == 0..(2 * M - 1)

\* all non-decreasing tables of length len over 0..M that end at M (a constant: TLC evaluates it once)
TablesOf ==
  [len \in 1..N |-> {t \in [1..len -> 0..M] : t[len] = M /\ \A k \in 1..(len - 1) : t[k] <= t[k + 1]}]
Tables(len) == TablesOf[len]

\* the linear search "for (k = 0; k < size; k++) if (rand <= cprobs[k]) { found = k; break; }"
\* 0 stands for "not found" (the code throws)
FirstIndex(t, r) ==
  LET F[k \in 1..(Len(t) + 1)] == IF k > Len(t) THEN 0 ELSE IF r <= 2 * t[k] THEN k ELSE F[k + 1]
  IN  F[1]

Init ==
  /\ n \in 2..N
  /\ tab1 \in Tables(n)
  /\ r1 \in Devs
  /\ i1 = 0 /\ row = <<>> /\ r2 = 0 /\ j2 = 0
  /\ phase = "e1"

PickE1 ==
  /\ phase = "e1"
  /\ i1' = FirstIndex(tab1, r1)
  /\ phase' = IF i1' = 0 THEN "throw" ELSE "e2"
  /\ UNCHANGED <<n, tab1, r1, row, r2, j2>>

\* the conditional table is the row of the first pick; the second deviate is independent
PickE2(t, r) ==
  /\ phase = "e2"
  /\ row' = t /\ r2' = r
  /\ j2' = FirstIndex(t, r)
  /\ phase' = IF j2' = 0 THEN "throw" ELSE "done"
  /\ UNCHANGED <<n, tab1, r1, i1>>

Next == PickE1 \/ (phase = "e2" /\ \E t \in Tables(n - i1 + 1) : \E r \in Devs : PickE2(t, r))

Spec == Init /\ [][Next]_vars

-----------------------------------------------------------------------------
Lower(t, k) == IF k = 1 THEN 0 ELSE 2 * t[k - 1]

\* the selected cell is the one whose probability interval holds the deviate
Inverts(t, r, k) ==
  /\ k \in 1..Len(t)
  /\ r <= 2 * t[k]
  /\ (r > 0 => Lower(t, k) < r)        \* hence the cell has positive width whenever r > 0
  /\ (r = 0 => k = 1)

NeverThrows == phase # "throw"
InvertsE1 == phase \in {"e2", "done"} => Inverts(tab1, r1, i1)
InvertsE2 == phase = "done" => Inverts(row, r2, j2)

\* monotone in the deviate: no larger deviate selects an earlier cell (every pair of deviates is
\* covered because every deviate is the one of some behaviour)
MonotoneFrom(t, r, k) == \A b \in Devs : b >= r => FirstIndex(t, b) >= k
MonotoneE1 == phase = "e2" => MonotoneFrom(tab1, r1, i1)
MonotoneE2 == phase = "done" => MonotoneFrom(row, r2, j2)

\* kinematic domain: E1 <= E[i1], E2 <= E[j2] and i1 + j2 <= n + 1, i.e. E1 + E2 <= E[1] + E[n]
InDomain == phase = "done" => (i1 - 1) + (j2 - 1) <= n - 1

TypeOK ==
  /\ n \in 2..N /\ Len(tab1) = n /\ r1 \in Devs /\ r2 \in Devs
  /\ i1 \in 0..n /\ j2 \in 0..n
  /\ phase \in {"e1", "e2", "done", "throw"}

\* export of the selection function (always TRUE).  Second picks are printed once per row,
\* from the canonical first pick (tab1 = 0..0 M..M, r1 = 1).
Canon == r1 = 1 /\ \A k \in 1..n : tab1[k] = (IF k < i1 THEN 0 ELSE M)
ExportPick ==
  /\ (Export /\ phase = "e2") => PrintT(ToString(<<"PICK", tab1, r1, i1>>))
  /\ (Export /\ phase = "done" /\ Canon) => PrintT(ToString(<<"PICK", row, r2, j2>>))
=============================================================================
