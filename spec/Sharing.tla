------------------------------ MODULE Sharing ------------------------------
(* Independent generators on different threads (property C12), seen at the    *)
(* grain at which the library gives control back to its caller: the deviate   *)
(* source.  A decay is a sequence of SEGMENTS of library code separated by     *)
(* calls of the caller's i_random::operator().  A routine keeps working data   *)
(* (spectrum parameters, tabulated shapes, a cached maximum) in a CELL while   *)
(* it draws: it writes the cell in its first segment and reads it back in      *)
(* every later one (a rejection loop).                                          *)
(*                                                                             *)
(*   Private = TRUE  : the cell is an automatic variable / a member of the      *)
(*                     generator: one cell per thread (what the property needs) *)
(*   Private = FALSE : the cell is a function-local `static`: one per process   *)
(*                                                                             *)
(* Every thread t works with its own parameters, abstracted as the value t.    *)
(* out[t] collects what t read back: Independent says each thread only ever    *)
(* sees its own parameters, i.e. its events are those of a sequential run.     *)
(*                                                                             *)
(* Schedules.  "Free": any thread takes its next segment (all interleavings    *)
(* at draw granularity; finer ones are the data races TSan reports).           *)
(* "Baton": strict alternation - after each deviate the baton goes to the next *)
(* live thread.  TLC shows (cfg *_BatonDetects) that the baton schedule alone  *)
(* already breaks Independent for a process-wide cell as soon as two threads   *)
(* run a decay of >= 2 segments: the conformance harness therefore only needs  *)
(* to force that one schedule on every pair of configurations.                 *)
EXTENDS Naturals, Sequences, FiniteSets

CONSTANTS
  Threads,    \* 1..N
  Segments,   \* segments of one decay (>= 1); decays per thread is Decays
  Decays,
  Private,    \* BOOLEAN
  Schedule    \* "Free" | "Baton"

VARIABLES
  cell,    \* [owner -> value]: owner = thread (Private) or 0 (process-wide); 0 = never written
  seg,     \* per thread: next segment of the current decay (0..Segments)
  left,    \* per thread: decays still to generate (including the current one)
  out,     \* per thread: sequence of values read back
  turn     \* Baton: the thread that holds the baton

vars == <<cell, seg, left, out, turn>>

N == Cardinality(Threads)
Owner(t) == IF Private THEN t ELSE 0
Live(t) == left[t] > 0

Init ==
  /\ cell = [o \in (IF Private THEN Threads ELSE {0}) |-> 0]
  /\ seg = [t \in Threads |-> 0]
  /\ left = [t \in Threads |-> Decays]
  /\ out = [t \in Threads |-> <<>>]
  /\ turn = 1

\* next live thread after t in the ring (t itself if it is the only one left)
RECURSIVE NextLive(_, _, _)
NextLive(t, l, k) ==
  LET u == (t % N) + 1 IN
  IF k = 0 THEN t ELSE IF l[u] > 0 THEN u ELSE NextLive(u, l, k - 1)

\* one segment of thread t, up to and including its next call of the deviate source (or the end of the decay)
Step(t) ==
  /\ Live(t)
  /\ Schedule = "Baton" => turn = t
  /\ IF seg[t] = 0
       THEN /\ cell' = [cell EXCEPT ![Owner(t)] = t]          \* set-up: parameters stored
            /\ out' = out
       ELSE /\ out' = [out EXCEPT ![t] = Append(@, cell[Owner(t)])]   \* the loop reads them back
            /\ cell' = cell
  /\ LET last == seg[t] + 1 = Segments IN
     /\ seg' = [seg EXCEPT ![t] = IF last THEN 0 ELSE @ + 1]
     /\ left' = [left EXCEPT ![t] = IF last THEN @ - 1 ELSE @]
  /\ turn' = IF Schedule = "Baton" THEN NextLive(t, left', N) ELSE turn

Next == \E t \in Threads : Step(t)
Spec == Init /\ [][Next]_vars

TypeOK ==
  /\ seg \in [Threads -> 0..(Segments - 1)]
  /\ left \in [Threads -> 0..Decays]
  /\ turn \in Threads
  /\ \A t \in Threads : \A i \in DOMAIN out[t] : out[t][i] \in Threads \cup {0}

\* what every thread read back is what it had stored itself
Independent == \A t \in Threads : \A i \in DOMAIN out[t] : out[t][i] = t

\* a finished run has read back Segments-1 values per decay
Complete == (\A t \in Threads : ~Live(t)) => \A t \in Threads : Len(out[t]) = Decays * (Segments - 1)
=============================================================================
