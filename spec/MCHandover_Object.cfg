SPECIFICATION Spec
CONSTANTS
  Gens <- G2
  Threads <- T3
  Scope = "object"
  Migration = TRUE
  Shots = 2
INVARIANTS TypeOK Independent
CHECK_DEADLOCK FALSE
