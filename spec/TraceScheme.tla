----------------------------- MODULE TraceScheme -----------------------------
(* Trace validation of decay-scheme executions against Scheme.tla / SchData.  *)
(*                                                                            *)
(* The instrumented library logs, for every scheme routine it enters, the     *)
(* scheme-level deviates it consumed and the primitive calls it made, with    *)
(* their literal arguments (harness/cosim.cc --sch-trace).  One line = one    *)
(* event:                                                                     *)
(*   {"e":"Reset"}                          a new decay starts                *)
(*   {"e":"Enter","s":"Co60"}               a scheme routine is entered        *)
(*   {"e":"Draw","a":998800,"b":1}          scheme-level deviate a*1e-6+b*1e-12*)
(*   {"e":"Call","p":"beta","args":[..]}    primitive call, literals as text   *)
(*   {"e":"Ret"}                            the scheme routine returns         *)
(* A recorded execution is accepted iff it is a behaviour of Scheme: every    *)
(* call must be the next item of the edge selected by the logged deviate,     *)
(* with equal literals, in the order and multiplicity of the model.           *)
(* Accepted <=> the invariant NotDone is violated (the whole log consumed).   *)
EXTENDS Scheme, Json, IOUtils

VARIABLES l, pending, val, extra

tvars == <<vars, l, pending, val, extra>>

Log == ndJsonDeserialize(IOEnv.TRACE)

Idle == -2

TInit ==
  /\ sch = "none" /\ node = Idle /\ reg = <<>> /\ npmin = 0 /\ npmax = 0 /\ steps = 0 /\ evis = 0 /\ ncalls = 0
  /\ l = 1 /\ pending = <<>> /\ val = <<>> /\ extra = 0

IsEvent(e) == l <= Len(Log) /\ Log[l].e = e /\ l' = l + 1

TReset ==
  /\ IsEvent("Reset")
  /\ sch' = "none" /\ node' = Idle /\ reg' = <<>> /\ npmin' = 0 /\ npmax' = 0 /\ steps' = 0 /\ evis' = 0 /\ ncalls' = 0
  /\ pending' = <<>> /\ val' = <<>> /\ extra' = 0

\* a scheme routine may be entered when idle or after the previous one returned (daughter chains)
TEnter ==
  /\ IsEvent("Enter")
  /\ node \in {Idle, -1} /\ pending = <<>>
  /\ Log[l].s \in SchNames
  /\ sch' = Log[l].s /\ node' = 0 /\ reg' = <<>> /\ steps' = 0 /\ evis' = 0 /\ ncalls' = 0
  /\ pending' = <<>> /\ val' = <<>> /\ extra' = 0
  /\ UNCHANGED <<npmin, npmax>>

\* the logged deviate selects the edge (no line consumed)
Selected(i) ==
  LET e == EdgesOf(sch)[i] IN
  e.site = "" \/ (e.site \in DOMAIN val /\ Less(e.lo, val[e.site]) /\ Leq(val[e.site], e.hi))

TTake ==
  /\ l <= Len(Log)
  /\ pending = <<>> /\ node >= 0
  /\ \E i \in Out(sch, node) :
       /\ Selected(i)
       /\ Take(i)
       /\ pending' = EdgesOf(sch)[i].items
  /\ UNCHANGED <<l, val, extra>>

TDraw ==
  /\ IsEvent("Draw")
  /\ pending # <<>>
  /\ \/ /\ Head(pending).k = "draw"
        /\ val' = [x \in (DOMAIN val) \cup {Head(pending).s} |->
                     IF x = Head(pending).s THEN <<Log[l].a, Log[l].b>> ELSE val[x]]
        /\ pending' = Tail(pending)
        /\ UNCHANGED extra
     \/ /\ Head(pending).k = "loop"            \* further trials of an opaque rejection loop
        /\ extra' = extra + 1
        /\ UNCHANGED <<pending, val>>
  /\ UNCHANGED vars

\* leaving a rejection loop: trials come in whole groups (5 deviates each in the angular-correlation blocks, 2 in the
\* Y90 pair-positron sampler of BxDecay0)
Group(p) == IF p = "2" THEN 2 ELSE 5
TLoopExit ==
  /\ l <= Len(Log) /\ Log[l].e # "Draw"
  /\ pending # <<>> /\ Head(pending).k = "loop"
  /\ extra % Group(Head(pending).p) = 0
  /\ pending' = Tail(pending) /\ extra' = 0
  /\ UNCHANGED <<vars, l, val>>

ArgsMatch(spec, got) ==
  /\ Len(spec) = Len(got)
  /\ \A j \in 1..Len(spec) : spec[j] = "?" \/ spec[j] = got[j]

TCall ==
  /\ IsEvent("Call")
  /\ pending # <<>> /\ Head(pending).k = "call"
  /\ Head(pending).p = Log[l].p
  /\ ArgsMatch(Head(pending).a, Log[l].args)
  /\ pending' = Tail(pending)
  /\ UNCHANGED <<vars, val, extra>>

TRet ==
  /\ IsEvent("Ret")
  /\ pending = <<>> /\ node = -1
  /\ UNCHANGED <<vars, pending, val, extra>>

TNext == TReset \/ TEnter \/ TTake \/ TDraw \/ TLoopExit \/ TCall \/ TRet

TraceSpec == TInit /\ [][TNext]_tvars

\* Acceptance.  The constraint Progress records the furthest line reached in register 1 (needs -workers 1); the
\* post-condition Accepted holds iff the whole log was consumed.  On rejection the printed line number is the
\* first event the specification does not allow.
Progress == TLCSet(1, IF TLCGet(1) > l THEN TLCGet(1) ELSE l)
Accepted == /\ PrintT(<<"furthest-line", TLCGet(1), "of", Len(Log)>>)
            /\ TLCGet(1) > Len(Log)

\* the capacity invariant of Scheme holds on every observed step as well
ObservedCapacity == npmax <= 100
=============================================================================
