SPECIFICATION Spec
CONSTANTS
  Events <- MCEventsThorough
  EventId = 7
INVARIANTS TypeOK RoundTrip ExactWhenShort Restorable Shape
CHECK_DEADLOCK FALSE
