SPECIFICATION TraceSpec
CONSTANTS
  Modes <- MCModes
  E0s <- MCE0s
  Grid = 1
  Slack = 2
INVARIANTS IndexInTable WindowClamped PairEnergies Emission
CONSTRAINT Progress
POSTCONDITION Accepted
CHECK_DEADLOCK FALSE
