SPECIFICATION TSpec
CONSTANTS
  Species = {1, 2, 3, 13, 14, 47}
  Filters = {0, 1, 2, 3, 13, 14, 47}
  Ranks = {0}
  MaxLen = 0
  MaxRej = 0
  Chain = TRUE
INVARIANTS TNothingSelected TTargetMode TSelectionMode TLedger
POSTCONDITION Accepted
CHECK_DEADLOCK FALSE
