SPECIFICATION Spec
CONSTANTS
  Gens <- MCGens
  Evs <- MCEvsQuick
  Streams <- MCStreams
  Cfgs <- MCCfgsScan
VIEW view
INVARIANTS TypeOK OutcomeFromLiveGenerator
PROPERTY OutcomeIsCanonical
CHECK_DEADLOCK FALSE
