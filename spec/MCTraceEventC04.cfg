SPECIFICATION TraceSpec
CONSTANTS
  KeMax = 1200000000
  Species <- MCSpecies
  Energies <- MCEnergies
CONSTRAINT ProgressWellFormed
POSTCONDITION Accepted
CHECK_DEADLOCK FALSE
