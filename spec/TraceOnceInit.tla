--------------------------- MODULE TraceOnceInit ---------------------------
(* Validation of executions recorded from the REAL bxdecay0::traces() (through *)
(* is_trace()) against OnceInit with Mode = "Once", Refill = FALSE.             *)
(*                                                                             *)
(* Log lines (ndjson, env TRACE), in the order in which things really happened: *)
(*   {"e":"Reset","x":id,"n":threads,"q":calls per thread,"t":0,"a":""}         *)
(*   {"e":"Check","t":t,"a":"empty"}   t went from traces:pre_check to         *)
(*                                     traces:filling (it is going to fill)    *)
(*   {"e":"Check","t":t,"a":"filled"}  t passed traces:pre_check and returned  *)
(*                                     without filling                         *)
(*   {"e":"Fill","t":t,"a":""}         t went on from traces:filling and filled *)
(*   {"e":"Ret","t":t,"a":v}           t's call returned                        *)
(*   {"e":"End",...} {"e":"Eof",...}                                            *)
(* Steps of a thread that no schedule point exposed (e.g. the whole call when  *)
(* the hooks sit inside a guarded initialiser another thread is running) are   *)
(* taken silently, immediately before the thread's next logged step.           *)
(* Same monitor construction as TraceGslHandler.                               *)
EXTENDS OnceInit, Sequences, Json, IOUtils, TLC

Log == ndJsonDeserialize(IOEnv.TRACE)
TraceThreads == 1..4

VARIABLES l, skipping, rej, xid
mon == <<l, skipping, rej, xid>>
tvars == <<vars, mon>>

Ev == Log[l]
HasLine == l <= Len(Log)

TInit ==
  /\ map = "empty"
  /\ pc = [t \in Threads |-> "start"]
  /\ left = [t \in Threads |-> 0]
  /\ once = 0
  /\ view = [t \in Threads |-> "none"]
  /\ l = 1 /\ skipping = TRUE /\ rej = 0 /\ xid = 0

Reset ==
  /\ HasLine /\ Ev.e = "Reset"
  /\ map' = "empty"
  /\ pc' = [t \in Threads |-> "start"]
  /\ left' = [t \in Threads |-> IF t <= Ev.n THEN Ev.q ELSE 0]
  /\ once' = 0
  /\ view' = [t \in Threads |-> "none"]
  /\ l' = l + 1 /\ skipping' = FALSE /\ xid' = Ev.x /\ rej' = rej

Silent ==
  /\ Ev.t \in Threads
  /\ \/ Ev.e = "Fill" /\ pc[Ev.t] = "tofill" /\ FillBegin(Ev.t)
     \/ Ev.e = "Ret" /\ pc[Ev.t] = "start" /\ Check(Ev.t)
     \/ Ev.e = "Ret" /\ pc[Ev.t] = "tofill" /\ FillBegin(Ev.t)
     \/ Ev.e = "Ret" /\ pc[Ev.t] = "filling" /\ FillEnd(Ev.t)
  /\ UNCHANGED mon

Consume ==
  /\ \/ /\ Ev.e = "Check" /\ Ev.t \in Threads
        /\ Check(Ev.t)
        /\ pc'[Ev.t] = (IF Ev.a = "empty" THEN "tofill" ELSE "toread")
     \/ /\ Ev.e = "Fill" /\ Ev.t \in Threads
        /\ FillEnd(Ev.t)
     \/ /\ Ev.e = "Ret" /\ Ev.t \in Threads
        /\ Read(Ev.t)
        /\ view'[Ev.t] = "full"
     \/ /\ Ev.e = "End"
        /\ \A t \in Threads : left[t] = 0 /\ pc[t] = "start"
        /\ UNCHANGED vars
  /\ l' = l + 1 /\ UNCHANGED <<skipping, rej, xid>>

Progress == Silent \/ Consume

Why ==
  CASE Ev.e = "Check" /\ Ev.a = "empty" ->
         IF once \in Threads \ {Ev.t} THEN "concurrent-fill" ELSE IF once = Done THEN "refill" ELSE "order"
    [] Ev.e = "Check" ->
         IF once \in Threads \ {Ev.t} THEN "read-during-fill" ELSE "order"
    [] Ev.e = "Fill" -> "fill-order"
    [] Ev.e = "Ret" -> IF once \in Threads \ {Ev.t} THEN "read-during-fill" ELSE "order"
    [] Ev.e = "End" -> "incomplete"
    [] OTHER -> "unknown-event"

Reject ==
  /\ HasLine /\ ~skipping /\ Ev.e \notin {"Reset", "Eof"}
  /\ ~ENABLED Progress
  /\ PrintT(<<"C12REJ", xid, l, Ev.e, Ev.t, Why>>)
  /\ rej' = rej + 1
  /\ skipping' = TRUE /\ l' = l + 1 /\ xid' = xid
  /\ UNCHANGED vars

Skip ==
  /\ HasLine /\ skipping /\ Ev.e \notin {"Reset", "Eof"}
  /\ l' = l + 1 /\ UNCHANGED <<skipping, rej, xid>> /\ UNCHANGED vars

Eof ==
  /\ HasLine /\ Ev.e = "Eof"
  /\ JsonSerialize(IOEnv.C12_REJ, [consumed |-> l, rejected |-> rej])
  /\ PrintT(<<"C12EOF", l, rej>>)
  /\ l' = l + 1 /\ UNCHANGED <<skipping, rej, xid>> /\ UNCHANGED vars

TNext ==
  \/ Reset
  \/ (HasLine /\ ~skipping /\ Ev.e \notin {"Reset", "Eof"} /\ Progress)
  \/ Reject
  \/ Skip
  \/ Eof

TSpec == TInit /\ [][TNext]_tvars

TNoTwoFill == NoTwoFill
TNoReadDuringFill == NoReadDuringFill
TReadsFull == ReadsFull

AllConsumed == TLCGet("stats").diameter - 1 >= Len(Log)
=============================================================================
