---------------------------- MODULE G4Messenger ----------------------------
(* The command layer of the Geant4 extension: the macro commands             *)
(*   /bxdecay0/generator/{background,dbd,dbdranged,mdl,mdlr,apply,destroy,    *)
(*                        verbosity,dump}                                      *)
(* (bxdecay0_g4::PrimaryGeneratorActionMessenger) seen as a state machine on  *)
(* the action's INTERFACE CONFIGURATION, i.e. on the record that G4Action.tla  *)
(* takes as the argument of SetConfiguration.  It is the way users name the    *)
(* nuclide, seed, mode, level and window that C17 speaks about.                *)
(*                                                                             *)
(* A command line first passes the Geant4 command layer, which completes       *)
(* omitted trailing parameters with their defaults and REJECTS the line        *)
(* (nothing reaches the messenger, nothing changes) when a mandatory           *)
(* parameter is missing, a parameter does not read as its type, or lies        *)
(* outside the range the command declares (UiAccepts).  An accepted line       *)
(* writes the values typed into the fields of the configuration.               *)
(*                                                                             *)
(* What is fixed: the fields a command names take the values typed; the other  *)
(* fields of the same group (base / MDL) take their reset values for           *)
(* `background`, `dbdranged`, `mdl`, `mdlr`; "configuration has changed" is    *)
(* raised.  Named deviations (either behaviour is allowed, the code shows the  *)
(* first one):                                                                 *)
(*  - DbdKeepsWindow : `dbd` does not reset the base group: the window of an   *)
(*    earlier `dbdranged` stays (the code calls reset_mdl() where `background` *)
(*    calls reset_base()).                                                     *)
(*  - DbdDropsMdl : `dbd` / `dbdranged` wipe the MDL group (`background` does  *)
(*    not).                                                                    *)
(*  - MdlWipedOnError : `mdl` / `mdlr` with an unknown particle name are       *)
(*    refused by the messenger AFTER the MDL group was wiped.                  *)
(*  - Apply may or may not clear the changed flag (see G4Action.tla KeepOld).  *)
EXTENDS Integers, Sequences, FiniteSets, TLC

CONSTANTS Nucs   \* nuclide names typed (strings)

VARIABLES base, mdl, changed, verb, res
vars == <<base, mdl, changed, verb, res>>

\* energies in 0.1 MeV, angles in degrees; Absent = trailing parameter not typed
Absent == -999
DefaultBase == [cat |-> "", nuc |-> "", seed |-> 1, mode |-> 0, level |-> 0, emin |-> -10, emax |-> -10, dbg |-> FALSE]
DefaultMdl  == [use |-> FALSE, name |-> "", rank |-> -1, lon |-> 0, col |-> 0, ap |-> 0, ap2 |-> -10, eom |-> FALSE]

SeedsTyped  == {7, 0, -1}
ModesTyped  == {1, 4, 0}
LevelsTyped == {0, 1, -1}
EminTyped   == {-10, 5, -5}           \* -1.0 (= no bound), 0.5, -0.5
EmaxTyped   == {Absent, -10, 20, 0}   \* not typed, -1.0, 2.0, 0.0
NamesTyped  == {"e-", "all", "muon"}
KnownNames  == {"all", "*", "e+", "positron", "e-", "electron", "g", "gamma", "a", "alpha", "n", "neutron", "p", "proton"}
RanksTyped  == {0, -1, -5}            \* -5: clamped to -1 by the messenger
Bools       == {Absent, 1}            \* trailing flag not typed / "true"

Flag(b) == b = 1

Init == base = DefaultBase /\ mdl = DefaultMdl /\ changed = FALSE /\ verb = 0 /\ res = "ok"

UiReject == res' = "ui-rejected" /\ UNCHANGED <<base, mdl, changed, verb>>

\* /bxdecay0/generator/background NUCLIDE SEED [DEBUG]      range: seed>0
Background(nu, s, d) ==
  IF s > 0
    THEN /\ base' = [DefaultBase EXCEPT !.cat = "background", !.nuc = nu, !.seed = s, !.dbg = Flag(d)]
         /\ changed' = TRUE /\ res' = "ok" /\ UNCHANGED <<mdl, verb>>
    ELSE UiReject

\* /bxdecay0/generator/dbd NUCLIDE SEED DBD_MODE DBD_LEVEL [DEBUG]      ranges: seed>=0, dbd_mode>=1, dbd_level>=0
Dbd(nu, s, m, l, d) ==
  IF s >= 0 /\ m >= 1 /\ l >= 0
    THEN /\ \E keepWindow \in BOOLEAN :                                                    \* DbdKeepsWindow
              base' = [(IF keepWindow THEN base ELSE DefaultBase) EXCEPT !.cat = "dbd", !.nuc = nu, !.seed = s,
                                                                          !.mode = m, !.level = l, !.dbg = Flag(d)]
         /\ mdl' \in {DefaultMdl, mdl}                                                     \* DbdDropsMdl
         /\ changed' = TRUE /\ res' = "ok" /\ UNCHANGED verb
    ELSE UiReject

\* /bxdecay0/generator/dbdranged NUCLIDE SEED DBD_MODE DBD_LEVEL DBD_MIN_ENERGY [DBD_MAX_ENERGY [DEBUG]]
\*   ranges: as dbd, dbd_min_energy==-1.0 || dbd_min_energy>=0.0, dbd_max_energy==-1.0 || dbd_max_energy>0.0
DbdRanged(nu, s, m, l, lo, hi, d) ==
  IF s >= 0 /\ m >= 1 /\ l >= 0 /\ (lo = -10 \/ lo >= 0) /\ (hi = Absent \/ hi = -10 \/ hi > 0)
    THEN /\ \E keepOther \in BOOLEAN :
              base' = [(IF keepOther THEN base ELSE DefaultBase) EXCEPT !.cat = "dbd", !.nuc = nu, !.seed = s, !.mode = m, !.level = l,
                                    !.emin = lo, !.emax = IF hi = Absent THEN -10 ELSE hi, !.dbg = Flag(d)]
         /\ mdl' \in {DefaultMdl, mdl}
         /\ changed' = TRUE /\ res' = "ok" /\ UNCHANGED verb
    ELSE UiReject

Clamp(r) == IF r < -1 THEN -1 ELSE r

\* /bxdecay0/generator/mdl [PARTICLE [RANK [LONGITUDE [COLATITUDE [APERTURE [ERROR_ON_MISSING]]]]]]   (no declared range)
Mdl(nm, rk, lon, col, ap, eom) ==
  IF nm \in KnownNames
    THEN /\ mdl' = [use |-> TRUE, name |-> nm, rank |-> Clamp(rk), lon |-> lon, col |-> col, ap |-> ap, ap2 |-> -10, eom |-> Flag(eom)]
         /\ changed' = TRUE /\ res' = "ok" /\ UNCHANGED <<base, verb>>
    ELSE /\ mdl' \in {DefaultMdl, mdl}                                                     \* MdlWipedOnError
         /\ res' = "refused" /\ UNCHANGED <<base, changed, verb>>

Mdlr(nm, rk, lon, col, ap, ap2, eom) ==
  IF nm \in KnownNames
    THEN /\ mdl' = [use |-> TRUE, name |-> nm, rank |-> Clamp(rk), lon |-> lon, col |-> col, ap |-> ap, ap2 |-> ap2 * 10, eom |-> Flag(eom)]
         /\ changed' = TRUE /\ res' = "ok" /\ UNCHANGED <<base, verb>>
    ELSE /\ mdl' \in {DefaultMdl, mdl}
         /\ res' = "refused" /\ UNCHANGED <<base, changed, verb>>

\* a line the command layer cannot complete or read: a mandatory parameter missing, a word where a number is expected
Short(cmd) == UiReject
Garbled(cmd) == UiReject

Verbosity(v) ==
  IF v >= 0 THEN verb' = v /\ res' = "ok" /\ UNCHANGED <<base, mdl, changed>> ELSE UiReject

Apply == /\ changed' \in {FALSE, changed} /\ res' = "ok" /\ UNCHANGED <<base, mdl, verb>>

Destroy == base' = DefaultBase /\ mdl' = DefaultMdl /\ changed' = FALSE /\ res' = "ok" /\ UNCHANGED verb

Dump == res' = "ok" /\ UNCHANGED <<base, mdl, changed, verb>>

Next ==
  \/ \E nu \in Nucs, s \in SeedsTyped : Background(nu, s, Absent)
  \/ Background("Co60", 7, 1)
  \/ \E nu \in Nucs, s \in {7, -1}, m \in ModesTyped, l \in {0, 1} : Dbd(nu, s, m, l, Absent)
  \/ \E l \in {1, -1} : Dbd("Mo100", 0, 1, l, 1)
  \/ \E l \in {0, -1}, lo \in EminTyped, hi \in EmaxTyped : DbdRanged("Mo100", 7, 4, l, lo, hi, Absent)
  \/ \E s \in {0, -1}, m \in {1, 0} : DbdRanged("Mo100", s, m, 1, 5, 20, 1)
  \/ \E nm \in NamesTyped, rk \in {0, -5} : Mdl(nm, rk, 30, 60, 20, Absent)
  \/ Mdl("gamma", -1, 0, 90, 5, 1)
  \/ \E nm \in {"e-", "muon"} : Mdlr(nm, 0, 45, 90, 10, 5, Absent)
  \/ \E c \in {"background", "dbd", "dbdranged", "verbosity"} : Short(c) \/ Garbled(c)
  \/ \E v \in {0, -1} : Verbosity(v)
  \/ Apply \/ Destroy \/ Dump

Spec == Init /\ [][Next]_vars

-----------------------------------------------------------------------------
TypeOK ==
  /\ base.cat \in {"", "background", "dbd"} /\ base.nuc \in Nucs \cup {""}
  /\ changed \in BOOLEAN /\ res \in {"ok", "ui-rejected", "refused"}

\* what the command layer lets through is inside the documented ranges
RangesHold ==
  /\ base.cat = "background" => base.seed > 0
  /\ base.cat = "dbd" => base.seed >= 0 /\ base.mode >= 1 /\ base.level >= 0
  /\ base.emin = -10 \/ base.emin >= 0
  /\ base.emax = -10 \/ base.emax > 0
  /\ mdl.use => mdl.name \in KnownNames /\ mdl.rank >= -1

\* a background request never carries double-beta settings
BackgroundIsClean == base.cat = "background" => base.mode = 0 /\ base.level = 0 /\ base.emin = -10 /\ base.emax = -10

\* the idealised command layer (no DbdKeepsWindow): a `dbd` request never carries a window.  NOT an invariant of this model -
\* TLC's counterexample (dbdranged, then dbd) is the documented deviation; listed in MCG4Messenger_ideal.cfg as must-fail.
DbdHasNoStaleWindow == (res = "ok" /\ base.cat = "dbd" /\ base.mode = 1) => base.emin = -10 /\ base.emax = -10
=============================================================================
