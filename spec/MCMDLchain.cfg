SPECIFICATION Spec
CONSTANTS
  Species <- MCSpecies
  Filters <- MCFilters
  Ranks <- MCRanksSmall
  MaxLen = 2
  MaxRej = 1
  Chain = TRUE
INVARIANTS TypeOK WellDefined NothingSelected TargetMode SelectionMode KindMode Ledger EntryIrrelevant
PROPERTIES HistoryFree
CHECK_DEADLOCK FALSE
