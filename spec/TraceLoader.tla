----------------------------- MODULE TraceLoader -----------------------------
(* Trace validation for Loader (property C15): what harness/loader_fuzz.cc      *)
(* observed on the real loaders is replayed against the specification.  One     *)
(* execution per case, concatenated with Reset lines:                           *)
(*   {"e":"Gen","f":fmt}  {"e":"Inject","k":kind,"p":pos}                        *)
(*   {"e":"Observe","id":..,"sym":..,"values":n,"entries":n,"invalid":n,"alien":n}*)
(*   {"e":"Reset"}                                                               *)
(* Gen / Inject are the actions of Loader itself, so an observation can only    *)
(* be attributed to a case the model really has, and the document the bounds    *)
(* are computed from is the model's own faulted document.  An observation that  *)
(* Loader!Accept refuses does not stop the validation: it is printed            *)
(* (REJECT ...) and counted, so that one run classifies every case.  The trace  *)
(* as a whole is accepted (post-condition) iff every line was matched.          *)
EXTENDS MCLoader, Json, IOUtils

TraceLog == ndJsonDeserialize(IOEnv.TRACE)

VARIABLES l, rejected
tvars == <<vars, l, rejected>>

Idle == /\ fmt = "" /\ doc = <<>> /\ fault = NoFault /\ verdict = Required(<<>>, TRUE)

TInit == Idle /\ l = 1 /\ rejected = 0

IsEv(e) == l <= Len(TraceLog) /\ TraceLog[l].e = e

TGen == /\ IsEv("Gen") /\ fmt = ""
        /\ TraceLog[l].f \in Formats
        /\ fmt' = TraceLog[l].f
        /\ doc' = Doc[fmt']
        /\ fault' = NoFault
        /\ verdict' = Required(doc', TRUE)
        /\ l' = l + 1 /\ UNCHANGED rejected

TInject == /\ IsEv("Inject") /\ fmt # ""
           /\ Inject(TraceLog[l].k, TraceLog[l].p)
           /\ l' = l + 1 /\ UNCHANGED rejected

Obs(e) == [sym |-> e.sym, values |-> e.values, entries |-> e.entries, invalid |-> e.invalid, alien |-> e.alien]

TObserve == /\ IsEv("Observe") /\ fmt # ""
            /\ LET e == TraceLog[l]
                   ok == Accept(verdict.bound, Obs(e))
               IN /\ (ok \/ PrintT(<<"REJECT", e.id, Why(verdict.bound, Obs(e)), fmt, fault.kind, fault.pos, fault.role>>)) = TRUE
                  /\ rejected' = rejected + (IF ok THEN 0 ELSE 1)
            /\ l' = l + 1 /\ UNCHANGED vars

TReset == /\ IsEv("Reset")
          /\ fmt' = "" /\ doc' = <<>> /\ fault' = NoFault /\ verdict' = Required(<<>>, TRUE)
          /\ l' = l + 1 /\ UNCHANGED rejected

TNext == TGen \/ TInject \/ TObserve \/ TReset
TSpec == TInit /\ [][TNext]_tvars

(* every line of the log was matched by an action of the specification *)
TraceAccepted == TLCGet("stats").diameter - 1 = Len(TraceLog)
=============================================================================
