SPECIFICATION Spec
CONSTANTS Names <- MCNames
INVARIANTS Tiling Acyclic Capacity NonEmpty ConversionsPossible
CHECK_DEADLOCK FALSE
