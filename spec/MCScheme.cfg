SPECIFICATION Spec
CONSTANTS Names <- MCNames
INVARIANTS Tiling Acyclic Capacity NonEmpty
CHECK_DEADLOCK FALSE
