SPECIFICATION TSpec
CONSTANTS
  Plans <- NoPlans
  Parts = 2
INVARIANTS TypeOK StatusOnlyIfComplete AlwaysPrefix RefusedNoRecord RefusalDetectable MustRefuse HeaderReflects DoneComplete
POSTCONDITION Accepted
CHECK_DEADLOCK FALSE
