#ifndef G4STUB_PRIMARYPARTICLE_HH
#define G4STUB_PRIMARYPARTICLE_HH
#include "G4ParticleDefinition.hh"
#include "G4ThreeVector.hh"
class G4PrimaryParticle
{
public:
  explicit G4PrimaryParticle(const G4ParticleDefinition * def_) : G4code(def_) {}
  const G4ParticleDefinition * GetG4code() const { return G4code; }
  const G4ParticleDefinition * GetParticleDefinition() const { return G4code; }
  void SetKineticEnergy(G4double e) { kinE = e; }
  G4double GetKineticEnergy() const { return kinE; }
  void SetMass(G4double m_) { mass = m_; }
  G4double GetMass() const { return mass; }
  void SetCharge(G4double c) { charge = c; }
  G4double GetCharge() const { return charge; }
  void SetMomentumDirection(const G4ThreeVector & d) { direction = d; }
  const G4ThreeVector & GetMomentumDirection() const { return direction; }
  void SetPolarization(const G4ThreeVector & p) { pol = p; }
  G4ThreeVector GetPolarization() const { return pol; }
  G4double GetTotalMomentum() const { return std::sqrt(kinE * (kinE + 2.0 * mass)); }
  G4ThreeVector GetMomentum() const { return direction * GetTotalMomentum(); }
  // stand-in extension: the momentum vector exactly as handed to the gun
  G4ThreeVector stub_momentum_as_given;

private:
  const G4ParticleDefinition * G4code = nullptr;
  G4double kinE   = 0.0;
  G4double mass   = 0.0;
  G4double charge = 0.0;
  G4ThreeVector direction;
  G4ThreeVector pol;
};
#endif
