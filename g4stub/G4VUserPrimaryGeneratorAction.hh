#ifndef G4STUB_VUSERPRIMARYGENERATORACTION_HH
#define G4STUB_VUSERPRIMARYGENERATORACTION_HH
class G4Event;
class G4VUserPrimaryGeneratorAction
{
public:
  G4VUserPrimaryGeneratorAction() {}
  virtual ~G4VUserPrimaryGeneratorAction() {}
  virtual void GeneratePrimaries(G4Event * anEvent) = 0;
};
#endif
