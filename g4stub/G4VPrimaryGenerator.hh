#ifndef G4STUB_VPRIMARYGENERATOR_HH
#define G4STUB_VPRIMARYGENERATOR_HH
#include "G4ThreeVector.hh"
#include "globals.hh"
class G4Event;
class G4VPrimaryGenerator
{
public:
  G4VPrimaryGenerator() {}
  virtual ~G4VPrimaryGenerator() {}
  virtual void GeneratePrimaryVertex(G4Event * evt) = 0;
  G4ThreeVector GetParticlePosition() { return particle_position; }
  G4double GetParticleTime() { return particle_time; }
  void SetParticlePosition(G4ThreeVector aPosition) { particle_position = aPosition; }
  void SetParticleTime(G4double aTime) { particle_time = aTime; }

protected:
  G4ThreeVector particle_position;
  G4double particle_time = 0.0;
};
#endif
