#ifndef G4STUB_STRING_HH
#define G4STUB_STRING_HH
#include <string>
class G4String : public std::string
{
public:
  G4String() {}
  G4String(const std::string & s) : std::string(s) {}
  G4String(const char * s) : std::string(s) {}
  G4String(const G4String &) = default;
  G4String & operator=(const G4String &) = default;
  G4String & operator=(const std::string & s)
  {
    std::string::operator=(s);
    return *this;
  }
  G4String & operator=(const char * s)
  {
    std::string::operator=(s);
    return *this;
  }
};
#endif
