#ifndef G4STUB_EVENT_HH
#define G4STUB_EVENT_HH
#include <vector>

#include "G4PrimaryVertex.hh"
class G4Event
{
public:
  explicit G4Event(G4int id = 0) : eventID(id) {}
  ~G4Event()
  {
    for (G4PrimaryVertex * v : vertices) delete v;
  }
  G4Event(const G4Event &) = delete;
  G4Event & operator=(const G4Event &) = delete;
  G4int GetEventID() const { return eventID; }
  void AddPrimaryVertex(G4PrimaryVertex * v) { vertices.push_back(v); }
  G4int GetNumberOfPrimaryVertex() const { return (G4int)vertices.size(); }
  G4PrimaryVertex * GetPrimaryVertex(G4int i = 0) const { return vertices.at(i); }

private:
  G4int eventID;
  std::vector<G4PrimaryVertex *> vertices;
};
#endif
