#ifndef G4STUB_G4Electron_HH
#define G4STUB_G4Electron_HH
#include "G4ParticleDefinition.hh"
#include "G4SystemOfUnits.hh"
class G4Electron : public G4ParticleDefinition
{
public:
  static G4Electron * Definition()
  {
    static G4Electron theInstance;
    return &theInstance;
  }
  static G4Electron * ElectronDefinition() { return Definition(); }
  static G4Electron * Electron() { return Definition(); }

private:
  G4Electron() : G4ParticleDefinition("e-", 0.51099891 * CLHEP::MeV, -1.0 * CLHEP::eplus, 11) {}
};
#endif
