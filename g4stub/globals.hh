// Stand-in for Geant4's globals.hh (see README.txt)
#ifndef G4STUB_GLOBALS_HH
#define G4STUB_GLOBALS_HH
#include <algorithm>
#include <cmath>
#include <iostream>
#include <string>

#include "G4String.hh"
#include "G4Types.hh"

#define G4cout std::cout
#define G4cerr std::cerr
#define G4endl std::endl

enum G4ExceptionSeverity
{
  FatalException,
  FatalErrorInArgument,
  RunMustBeAborted,
  EventMustBeAborted,
  JustWarning
};

namespace g4stub {
  /// What the stand-in run manager / exception handler were asked to do
  struct log_t
  {
    int aborts     = 0; ///< G4RunManager::AbortRun calls
    int exceptions = 0; ///< G4Exception calls (any severity)
    int gun_errors = 0; ///< G4ParticleGun used without a particle definition
  };
  inline log_t & log()
  {
    static log_t l;
    return l;
  }
} // namespace g4stub

inline void G4Exception(const char * /*origin*/, const char * /*code*/, G4ExceptionSeverity /*severity*/, const char * /*description*/)
{
  g4stub::log().exceptions++;
}

#endif
