#ifndef G4STUB_G4Alpha_HH
#define G4STUB_G4Alpha_HH
#include "G4ParticleDefinition.hh"
#include "G4SystemOfUnits.hh"
class G4Alpha : public G4ParticleDefinition
{
public:
  static G4Alpha * Definition()
  {
    static G4Alpha theInstance;
    return &theInstance;
  }
  static G4Alpha * AlphaDefinition() { return Definition(); }
  static G4Alpha * Alpha() { return Definition(); }

private:
  G4Alpha() : G4ParticleDefinition("alpha", 3727.379 * CLHEP::MeV, +2.0 * CLHEP::eplus, 1000020040) {}
};
#endif
