// Stand-in for G4UImessenger (the command layer is outside C17; kept so that a messenger header would still parse)
#ifndef G4STUB_UIMESSENGER_HH
#define G4STUB_UIMESSENGER_HH
#include "globals.hh"
class G4UIcommand;
class G4UImessenger
{
public:
  G4UImessenger() {}
  virtual ~G4UImessenger() {}
  virtual G4String GetCurrentValue(G4UIcommand *) { return G4String(); }
  virtual void SetNewValue(G4UIcommand *, G4String) {}
};
#endif
