// Stand-in for G4ThreeVector (CLHEP::Hep3Vector): the subset used by the extension and the harness
#ifndef G4STUB_THREEVECTOR_HH
#define G4STUB_THREEVECTOR_HH
#include <cmath>
namespace CLHEP {
  class Hep3Vector
  {
  public:
    Hep3Vector() {}
    Hep3Vector(double x_, double y_, double z_) : dx(x_), dy(y_), dz(z_) {}
    double x() const { return dx; }
    double y() const { return dy; }
    double z() const { return dz; }
    void setX(double v) { dx = v; }
    void setY(double v) { dy = v; }
    void setZ(double v) { dz = v; }
    void set(double x_, double y_, double z_)
    {
      dx = x_;
      dy = y_;
      dz = z_;
    }
    double mag2() const { return dx * dx + dy * dy + dz * dz; }
    double mag() const { return std::sqrt(mag2()); }
    Hep3Vector unit() const
    {
      double tot = mag2();
      Hep3Vector p(dx, dy, dz);
      return tot > 0.0 ? p *= (1.0 / std::sqrt(tot)) : p;
    }
    Hep3Vector & operator*=(double a)
    {
      dx *= a;
      dy *= a;
      dz *= a;
      return *this;
    }
    bool operator==(const Hep3Vector & v) const { return dx == v.dx && dy == v.dy && dz == v.dz; }
    bool operator!=(const Hep3Vector & v) const { return !(*this == v); }

  private:
    double dx = 0.0, dy = 0.0, dz = 0.0;
  };
  inline Hep3Vector operator*(const Hep3Vector & p, double a) { return Hep3Vector(a * p.x(), a * p.y(), a * p.z()); }
  inline Hep3Vector operator*(double a, const Hep3Vector & p) { return Hep3Vector(a * p.x(), a * p.y(), a * p.z()); }
  inline Hep3Vector operator+(const Hep3Vector & a, const Hep3Vector & b) { return Hep3Vector(a.x() + b.x(), a.y() + b.y(), a.z() + b.z()); }
  inline Hep3Vector operator-(const Hep3Vector & a, const Hep3Vector & b) { return Hep3Vector(a.x() - b.x(), a.y() - b.y(), a.z() - b.z()); }
} // namespace CLHEP
typedef CLHEP::Hep3Vector G4ThreeVector;
#endif
