// Stand-in for G4ParticleDefinition: name, PDG mass (MeV), PDG charge (eplus), PDG encoding
#ifndef G4STUB_PARTICLEDEFINITION_HH
#define G4STUB_PARTICLEDEFINITION_HH
#include "globals.hh"
class G4DecayTable;
class G4ParticleDefinition
{
public:
  G4ParticleDefinition(const G4String & name_, G4double mass_, G4double charge_, G4int encoding_)
    : theName(name_), thePDGMass(mass_), thePDGCharge(charge_), thePDGEncoding(encoding_)
  {}
  const G4String & GetParticleName() const { return theName; }
  G4double GetPDGMass() const { return thePDGMass; }
  G4double GetPDGCharge() const { return thePDGCharge; }
  G4int GetPDGEncoding() const { return thePDGEncoding; }
  G4bool IsShortLived() const { return false; }
  G4DecayTable * GetDecayTable() const { return nullptr; }

private:
  G4String theName;
  G4double thePDGMass;
  G4double thePDGCharge;
  G4int thePDGEncoding;
};
#endif
