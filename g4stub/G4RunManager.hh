// Stand-in for G4RunManager: AbortRun only counts
#ifndef G4STUB_RUNMANAGER_HH
#define G4STUB_RUNMANAGER_HH
#include "globals.hh"
class G4RunManager
{
public:
  static G4RunManager * GetRunManager()
  {
    static G4RunManager theInstance;
    return &theInstance;
  }
  virtual ~G4RunManager() {}
  virtual void AbortRun(G4bool /*softAbort*/ = false) { g4stub::log().aborts++; }
  virtual void AbortEvent() {}

private:
  G4RunManager() {}
};
#endif
