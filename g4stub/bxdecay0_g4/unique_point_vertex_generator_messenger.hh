// Shadows the extension's unique_point_vertex_generator_messenger.hh: the generator only constructs and deletes it.
#ifndef G4STUB_BXDECAY0G4_UPVG_MESSENGER_HH
#define G4STUB_BXDECAY0G4_UPVG_MESSENGER_HH
#include <G4UImessenger.hh>
namespace bxdecay0_g4 {
  class UniquePointVertexGenerator;
  class UniquePointVertexGeneratorMessenger : public G4UImessenger
  {
  public:
    explicit UniquePointVertexGeneratorMessenger(UniquePointVertexGenerator * vg_) : _vg_(vg_) {}
    ~UniquePointVertexGeneratorMessenger() override {}

  private:
    UniquePointVertexGenerator * _vg_ = nullptr;
  };
} // namespace bxdecay0_g4
#endif
