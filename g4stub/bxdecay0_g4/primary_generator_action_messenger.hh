// Shadows /repo/extensions/bxdecay0_g4/bxdecay0_g4/primary_generator_action_messenger.hh:
// the action only constructs and deletes its messenger.
#ifndef G4STUB_BXDECAY0G4_PGA_MESSENGER_HH
#define G4STUB_BXDECAY0G4_PGA_MESSENGER_HH
#include <G4UImessenger.hh>
namespace bxdecay0_g4 {
  class PrimaryGeneratorAction;
  class PrimaryGeneratorActionMessenger : public G4UImessenger
  {
  public:
    explicit PrimaryGeneratorActionMessenger(PrimaryGeneratorAction * pga_) : _pga_(pga_) {}
    ~PrimaryGeneratorActionMessenger() override {}

  private:
    PrimaryGeneratorAction * _pga_ = nullptr;
  };
} // namespace bxdecay0_g4
#endif
