// Stand-in for G4ParticleTable: the four species the extension hands over
#ifndef G4STUB_PARTICLETABLE_HH
#define G4STUB_PARTICLETABLE_HH
#include "G4Alpha.hh"
#include "G4Electron.hh"
#include "G4Gamma.hh"
#include "G4Positron.hh"
class G4ParticleTable
{
public:
  static G4ParticleTable * GetParticleTable()
  {
    static G4ParticleTable t;
    return &t;
  }
  G4ParticleDefinition * FindParticle(const G4String & name_) const
  {
    G4ParticleDefinition * all[] = {G4Gamma::Definition(), G4Electron::Definition(), G4Positron::Definition(), G4Alpha::Definition()};
    for (G4ParticleDefinition * d : all)
      if (d->GetParticleName() == name_) return d;
    return nullptr;
  }
};
#endif
