#ifndef G4STUB_G4Positron_HH
#define G4STUB_G4Positron_HH
#include "G4ParticleDefinition.hh"
#include "G4SystemOfUnits.hh"
class G4Positron : public G4ParticleDefinition
{
public:
  static G4Positron * Definition()
  {
    static G4Positron theInstance;
    return &theInstance;
  }
  static G4Positron * PositronDefinition() { return Definition(); }
  static G4Positron * Positron() { return Definition(); }

private:
  G4Positron() : G4ParticleDefinition("e+", 0.51099891 * CLHEP::MeV, +1.0 * CLHEP::eplus, -11) {}
};
#endif
