#ifndef G4STUB_PARTICLEMOMENTUM_HH
#define G4STUB_PARTICLEMOMENTUM_HH
#include "G4ThreeVector.hh"
typedef G4ThreeVector G4ParticleMomentum;
#endif
