#ifndef G4STUB_PRIMARYVERTEX_HH
#define G4STUB_PRIMARYVERTEX_HH
#include <vector>

#include "G4PrimaryParticle.hh"
class G4PrimaryVertex
{
public:
  G4PrimaryVertex(const G4ThreeVector & xyz0, G4double t0) : pos(xyz0), T0(t0) {}
  ~G4PrimaryVertex()
  {
    for (G4PrimaryParticle * p : primaries) delete p;
  }
  G4PrimaryVertex(const G4PrimaryVertex &) = delete;
  G4PrimaryVertex & operator=(const G4PrimaryVertex &) = delete;
  G4ThreeVector GetPosition() const { return pos; }
  G4double GetX0() const { return pos.x(); }
  G4double GetY0() const { return pos.y(); }
  G4double GetZ0() const { return pos.z(); }
  G4double GetT0() const { return T0; }
  void SetPrimary(G4PrimaryParticle * p) { primaries.push_back(p); }
  G4int GetNumberOfParticle() const { return (G4int)primaries.size(); }
  G4PrimaryParticle * GetPrimary(G4int i = 0) const { return primaries.at(i); }

private:
  G4ThreeVector pos;
  G4double T0;
  std::vector<G4PrimaryParticle *> primaries;
};
#endif
