#ifndef G4STUB_TYPES_HH
#define G4STUB_TYPES_HH
typedef double G4double;
typedef float G4float;
typedef int G4int;
typedef bool G4bool;
typedef long G4long;
#endif
