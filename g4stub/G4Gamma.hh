#ifndef G4STUB_G4Gamma_HH
#define G4STUB_G4Gamma_HH
#include "G4ParticleDefinition.hh"
#include "G4SystemOfUnits.hh"
class G4Gamma : public G4ParticleDefinition
{
public:
  static G4Gamma * Definition()
  {
    static G4Gamma theInstance;
    return &theInstance;
  }
  static G4Gamma * GammaDefinition() { return Definition(); }
  static G4Gamma * Gamma() { return Definition(); }

private:
  G4Gamma() : G4ParticleDefinition("gamma", 0.0 * CLHEP::MeV, 0.0 * CLHEP::eplus, 22) {}
};
#endif
