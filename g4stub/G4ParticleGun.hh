// Stand-in for G4ParticleGun, following the real class: same protected members, same setter semantics.
#ifndef G4STUB_PARTICLEGUN_HH
#define G4STUB_PARTICLEGUN_HH
#include "G4Event.hh"
#include "G4ParticleDefinition.hh"
#include "G4ParticleMomentum.hh"
#include "G4PrimaryVertex.hh"
#include "G4VPrimaryGenerator.hh"
#include "globals.hh"
class G4ParticleGun : public G4VPrimaryGenerator
{
public:
  G4ParticleGun() { SetInitialValues(); }
  explicit G4ParticleGun(G4int numberofparticles)
  {
    SetInitialValues();
    NumberOfParticlesToBeGenerated = numberofparticles;
  }
  explicit G4ParticleGun(G4ParticleDefinition * particleDef, G4int numberofparticles = 1)
  {
    SetInitialValues();
    NumberOfParticlesToBeGenerated = numberofparticles;
    SetParticleDefinition(particleDef);
  }
  ~G4ParticleGun() override {}
  G4ParticleGun(const G4ParticleGun &) = delete;
  const G4ParticleGun & operator=(const G4ParticleGun &) = delete;

  void GeneratePrimaryVertex(G4Event * evt) override
  {
    if (particle_definition == nullptr) {
      g4stub::log().gun_errors++;
      G4Exception("G4ParticleGun::GeneratePrimaryVertex()", "Event0109", FatalException, "Particle definition is not defined.");
      return;
    }
    G4PrimaryVertex * vertex = new G4PrimaryVertex(particle_position, particle_time);
    G4double mass            = particle_definition->GetPDGMass();
    for (G4int i = 0; i < NumberOfParticlesToBeGenerated; ++i) {
      G4PrimaryParticle * particle = new G4PrimaryParticle(particle_definition);
      particle->SetKineticEnergy(particle_energy);
      particle->SetMass(mass);
      particle->SetMomentumDirection(particle_momentum_direction);
      particle->SetCharge(particle_charge);
      particle->SetPolarization(particle_polarization);
      particle->stub_momentum_as_given = stub_momentum_as_given;
      vertex->SetPrimary(particle);
    }
    evt->AddPrimaryVertex(vertex);
  }

  void SetParticleDefinition(G4ParticleDefinition * aParticleDefinition)
  {
    if (aParticleDefinition == nullptr) {
      G4Exception("G4ParticleGun::SetParticleDefinition()", "Event0101", FatalException, "Null pointer is given.");
      return;
    }
    particle_definition = aParticleDefinition;
    particle_charge     = particle_definition->GetPDGCharge();
    if (particle_momentum > 0.0) {
      G4double mass   = particle_definition->GetPDGMass();
      particle_energy = std::sqrt(particle_momentum * particle_momentum + mass * mass) - mass;
    }
  }
  void SetParticleEnergy(G4double aKineticEnergy)
  {
    particle_energy   = aKineticEnergy;
    particle_momentum = 0.0;
  }
  void SetParticleMomentum(G4double aMomentum)
  {
    G4double mass     = particle_definition ? particle_definition->GetPDGMass() : 0.0;
    particle_momentum = aMomentum;
    particle_energy   = std::sqrt(particle_momentum * particle_momentum + mass * mass) - mass;
  }
  void SetParticleMomentum(G4ParticleMomentum aMomentum)
  {
    stub_momentum_as_given = aMomentum;
    if (particle_definition == nullptr) {
      particle_momentum_direction = aMomentum.unit();
      particle_momentum           = aMomentum.mag();
      particle_energy             = aMomentum.mag();
    } else {
      G4double mass               = particle_definition->GetPDGMass();
      particle_momentum           = aMomentum.mag();
      particle_momentum_direction = aMomentum.unit();
      particle_energy             = std::sqrt(particle_momentum * particle_momentum + mass * mass) - mass;
    }
  }
  void SetParticleMomentumDirection(G4ParticleMomentum aMomDirection) { particle_momentum_direction = aMomDirection.unit(); }
  void SetParticleCharge(G4double aCharge) { particle_charge = aCharge; }
  void SetParticlePolarization(G4ThreeVector aVal) { particle_polarization = aVal; }
  void SetNumberOfParticles(G4int i) { NumberOfParticlesToBeGenerated = i; }

  G4ParticleDefinition * GetParticleDefinition() const { return particle_definition; }
  G4ParticleMomentum GetParticleMomentumDirection() const { return particle_momentum_direction; }
  G4double GetParticleEnergy() const { return particle_energy; }
  G4double GetParticleMomentum() const { return particle_momentum; }
  G4double GetParticleCharge() const { return particle_charge; }
  G4ThreeVector GetParticlePolarization() const { return particle_polarization; }
  G4int GetNumberOfParticles() const { return NumberOfParticlesToBeGenerated; }

protected:
  virtual void SetInitialValues()
  {
    NumberOfParticlesToBeGenerated = 1;
    particle_definition            = nullptr;
    G4ThreeVector zero;
    particle_momentum_direction = (G4ParticleMomentum)zero;
    particle_energy             = 0.0;
    particle_momentum           = 0.0;
    particle_position           = zero;
    particle_time               = 0.0;
    particle_polarization       = zero;
    particle_charge             = 0.0;
  }

  G4int NumberOfParticlesToBeGenerated       = 0;
  G4ParticleDefinition * particle_definition = nullptr;
  G4ParticleMomentum particle_momentum_direction;
  G4double particle_energy   = 0.0;
  G4double particle_momentum = 0.0;
  G4double particle_charge   = 0.0;
  G4ThreeVector particle_polarization;

private:
  G4ThreeVector stub_momentum_as_given; // stand-in extension, not part of Geant4
};
#endif
