// Stand-in for G4SystemOfUnits.hh: CLHEP's internal units (MeV, ns, mm, eplus are 1)
#ifndef G4STUB_UNITS_HH
#define G4STUB_UNITS_HH
namespace CLHEP {
  static constexpr double pi = 3.14159265358979323846;
  // length
  static constexpr double millimeter = 1.0;
  static constexpr double mm         = millimeter;
  static constexpr double centimeter = 10. * millimeter;
  static constexpr double cm         = centimeter;
  static constexpr double meter      = 1000. * millimeter;
  static constexpr double m          = meter;
  static constexpr double micrometer = 1.e-6 * meter;
  static constexpr double um         = micrometer;
  // angle
  static constexpr double radian = 1.0;
  static constexpr double rad    = radian;
  static constexpr double degree = (pi / 180.0) * radian;
  static constexpr double deg    = degree;
  // time
  static constexpr double nanosecond  = 1.0;
  static constexpr double ns          = nanosecond;
  static constexpr double second      = 1.e+9 * nanosecond;
  static constexpr double s           = second;
  static constexpr double millisecond = 1.e-3 * second;
  static constexpr double ms          = millisecond;
  static constexpr double microsecond = 1.e-6 * second;
  static constexpr double us          = microsecond;
  static constexpr double picosecond  = 1.e-12 * second;
  static constexpr double ps          = picosecond;
  // charge
  static constexpr double eplus = 1.0;
  // energy
  static constexpr double megaelectronvolt = 1.0;
  static constexpr double MeV              = megaelectronvolt;
  static constexpr double electronvolt     = 1.e-6 * megaelectronvolt;
  static constexpr double eV               = electronvolt;
  static constexpr double kiloelectronvolt = 1.e-3 * megaelectronvolt;
  static constexpr double keV              = kiloelectronvolt;
  static constexpr double gigaelectronvolt = 1.e+3 * megaelectronvolt;
  static constexpr double GeV              = gigaelectronvolt;
  static constexpr double teraelectronvolt = 1.e+6 * megaelectronvolt;
  static constexpr double TeV              = teraelectronvolt;
} // namespace CLHEP
using CLHEP::centimeter;
using CLHEP::cm;
using CLHEP::deg;
using CLHEP::degree;
using CLHEP::eplus;
using CLHEP::eV;
using CLHEP::GeV;
using CLHEP::keV;
using CLHEP::m;
using CLHEP::meter;
using CLHEP::MeV;
using CLHEP::millimeter;
using CLHEP::mm;
using CLHEP::nanosecond;
using CLHEP::ns;
using CLHEP::rad;
using CLHEP::radian;
using CLHEP::second;
using CLHEP::TeV;
#endif
